"""Loop summaries by one symbolic iteration (DESIGN.md 3.3.4, schema append-fold).

A `for [i,] v := range xs { ... }` loop whose only effect on state that outlives an iteration is
`acc = append(acc, e_1, ..., e_w)` (also through binary.BigEndian.AppendUintNN), with the same w on every path that
reaches the end of the body, is replaced by its closed form:

    len(acc') == len(acc) + w*len(xs);  acc'[0:len(acc)] == acc;  acc'[len(acc) + w*k + j] == e_j(xs[k], k)

The body is executed once, for an arbitrary iteration, on an abstract accumulator (every element the body appends is
recorded instead of being written to memory); all implicit safety obligations of the body are emitted as usual, early
`return`s inside the body are explored with the accumulator's contents unknown.  Soundness is the usual induction on
the iteration count (the body is a function of (k, xs[k], loop-invariant state) because it may not read or write anything
it changes except the accumulator, which is checked syntactically and on the recorded terms).  No invariant is needed,
so the proof does not depend on the names of temporaries."""
import z3

from .values import *  # noqa
from .sym import TRUE, FALSE, RS, IS, zand, zor, znot, zimp


def expr_key(e):
    k = e.get("k")
    if k == "ParenExpr":
        return expr_key(e["X"])
    if k == "Ident":
        return ("id", e.get("obj", e.get("Name")))
    if k == "SelectorExpr":
        return ("sel", expr_key(e["X"]), e["Sel"]["Name"])
    if k == "StarExpr":
        return ("star", expr_key(e["X"]))
    return ("other", id(e))


APPENDERS = ("AppendUint16", "AppendUint32", "AppendUint64")


class FoldMixin:
    def find_accumulators(self, node, out):
        """All X in statements `X = append(X, ...)` / `X = binary.*.AppendUintNN(X, ...)` of a statement tree."""
        if isinstance(node, list):
            for x in node:
                self.find_accumulators(x, out)
            return
        if not isinstance(node, dict):
            return
        if node.get("k") == "FuncLit":
            return
        if node.get("k") == "AssignStmt" and node.get("Tok") == "=" and len(node["Lhs"]) == 1 and len(node["Rhs"]) == 1:
            r = node["Rhs"][0]
            if r.get("k") == "CallExpr" and r.get("Args"):
                is_app = (r.get("call") == "builtin" and r.get("builtin") == "append") or \
                         (r.get("callee", "").rsplit(".", 1)[-1] in APPENDERS and "encoding/binary" in r.get("callee", ""))
                if is_app and expr_key(r["Args"][0]) == expr_key(node["Lhs"][0]):
                    out.append(node["Lhs"][0])
        for key, v in node.items():
            if key in ("t", "cv", "sel"):
                continue
            if isinstance(v, (dict, list)):
                self.find_accumulators(v, out)

    def acc_decode(self, term):
        """Recorded element list of an abstract accumulator value (through ite joins), or None."""
        term = z3.simplify(term)
        if z3.is_const(term) and term.decl().kind() == z3.Z3_OP_UNINTERPRETED:
            return self.acc_reg.get(term.decl().name())
        if z3.is_app(term) and term.decl().kind() == z3.Z3_OP_ITE:
            a = self.acc_decode(term.arg(1))
            b = self.acc_decode(term.arg(2))
            if a is None or b is None or len(a) != len(b):
                return None
            c = term.arg(0)
            return [x if x.eq(y) else z3.If(c, x, y) for x, y in zip(a, b)]
        return None

    def acc_new(self, elems, like):
        self.n += 1
        name = "acc@%d" % self.n
        r = z3.Const(name, RS)
        self.acc_reg[name] = list(elems)
        return SliceV(r, like.off, like.ln + idx(0), like.cap, like.elem)

    def acc_append(self, s, vals):
        """append on an abstract accumulator: record the scalar element terms."""
        cur = self.acc_decode(s.rid) if self.acc_mode else None
        if cur is None:
            return None
        out = self.acc_new(cur + list(vals), s)
        out.ln = s.ln + idx(len(vals))
        return out

    def try_fold_summary(self, s, st, xv, n, xt, ctx):
        body = s.get("Body")
        accs = []
        self.find_accumulators(body, accs)
        if not accs:
            self.notes.append("loop %s not summarised: reason 1" % s.get("loop", 0))
            return NotImplemented
        keys = set(expr_key(a) for a in accs)
        if len(keys) != 1:
            self.notes.append("loop %s not summarised: reason 2" % s.get("loop", 0))
            return NotImplemented
        X = accs[0]
        xk = expr_key(X)
        at = self.T(X)
        if at.under().k != "slice" or not is_scalar_type(at.elem()):
            self.notes.append("loop %s not summarised: reason 3" % s.get("loop", 0))
            return NotImplemented
        if s.get("Tok") == "=":
            self.notes.append("loop %s not summarised: reason 4" % s.get("loop", 0))
            return NotImplemented
        acc, regions, fields = self.assigned_in(body)
        outer = [o for o in acc if (o in st.vars or ("esc", o) in st.vars)]
        if X["k"] == "Ident":
            if set(outer) - {X["obj"]}:
                self.notes.append("loop %s not summarised: reason 5" % s.get("loop", 0))
                return NotImplemented
            if fields:
                self.notes.append("loop %s not summarised: reason 6" % s.get("loop", 0))
                return NotImplemented
        else:
            if outer:
                self.notes.append("loop %s not summarised: reason 7" % s.get("loop", 0))
                return NotImplemented
            sel = X.get("sel")
            if X["k"] != "SelectorExpr" or not sel or sel["kind"] != "field":
                self.notes.append("loop %s not summarised: reason 8" % s.get("loop", 0))
                return NotImplemented
            path = self.field_path(self.T(X["X"]), sel["index"])
            ok_fields = set((p[0].name(), p[1]) for p in path)
            if set(fields) - ok_fields:
                self.notes.append("loop %s not summarised: reason 9" % s.get("loop", 0))
                return NotImplemented
        for r in regions:
            if r is None or expr_key(r) != xk:
                self.notes.append("loop %s not summarised: reason 10" % s.get("loop", 0))
                return NotImplemented
        # the source must not share storage with the accumulator: by element type, or by a proved obligation
        u = xt.under()
        need_disjoint = False
        if u.k == "slice" and not xt.is_string():
            skey = self.mem_key(xt.elem(), 0, leaves(xt.elem())[0][1])
            akey = self.mem_key(at.elem(), 0, leaves(at.elem())[0][1])
            need_disjoint = skey == akey
        fr = self.frames[-1]
        a0 = self.ev(X, st)
        if need_disjoint and isinstance(a0, SliceV) and isinstance(xv, SliceV) and a0.lv is None and xv.lv is None:
            self.oblige(st, "frame", "loop%d-source-disjoint" % s.get("loop", 0), z3.Or(xv.rid != a0.rid, n == idx(0)), s.get("ln"),
                        "the ranged-over slice does not share its array with the accumulator it is appended to")
        if not isinstance(a0, SliceV) or a0.lv is not None:
            self.notes.append("loop %s not summarised: reason 12" % s.get("loop", 0))
            return NotImplemented
        # ---- one arbitrary iteration on an abstract accumulator
        b = st.fork()
        n_before = self.n
        i = self.fresh("k", IS)
        self.assume(b, z3.And(i >= 0, i < n))
        b.pc = zand(b.pc, z3.And(i >= 0, i < n))
        tok = s.get("Tok")
        if s.get("Key") and s["Key"].get("Name") != "_":
            self.assign_to(s["Key"], self.int_of(i, self.T(s["Key"])), b, tok)
        if s.get("Value") and s["Value"].get("Name") != "_":
            if xt.is_string():
                self.notes.append("loop %s not summarised: reason 13" % s.get("loop", 0))
                return NotImplemented
            v = self.arr_get(xv, i) if u.k == "array" else self.slice_get(b, xv, i)
            self.assign_to(s["Value"], v, b, tok)
        saved_reg, saved_mode = getattr(self, "acc_reg", {}), getattr(self, "acc_mode", 0)
        self.acc_reg = {}
        self.acc_mode = 1
        hdr = self.fresh_value(at, "acc@hdr")
        self.type_facts(b, hdr, at, param=False)
        m0 = self.acc_new([], hdr)
        saved_frame = self.frame_spec
        self.frame_spec = None
        self.lvalue(X, b).set(self, b, m0)
        self.frame_spec = saved_frame
        fr.loops.append(ctx)
        nrets = len(fr.rets)
        self.in_loop += 1
        try:
            out = self.ex(body, b)
        finally:
            self.in_loop -= 1
            fr.loops.pop()
        out = self.merge_all([o for o in [out] + ctx.continues if o is not None])
        failed = None
        if out is not None and self.loop_counter_changes(s, st, out):
            failed = "the body performs a counted operation (%s)" % ", ".join(sorted(self.loop_counter_changes(s, st, out)))
        if ctx.breaks:
            failed = "break inside a summarised loop"
        elems = None
        if failed is None and out is not None:
            mv = self.lvalue(X, out).get(self, out)
            elems = self.acc_decode(mv.rid)
            if elems is None:
                failed = "accumulator is not in append form on every path"
        self.acc_reg, self.acc_mode = saved_reg, saved_mode
        if failed:
            raise Unsupported("loop %d: %s" % (s.get("loop", 0), failed))
        if out is None:
            # the body never reaches its end: at most one iteration ever starts; the loop exits only when n == 0
            st.pc = zand(st.pc, n == idx(0))
            return st
        w = len(elems)
        from .quant_util import const_names
        iname = i.decl().name()
        for e in elems:
            for nm in const_names(e):
                if nm.startswith("acc@"):
                    raise Unsupported("loop %d: appended element depends on the accumulator" % s.get("loop", 0))
                if "!" in nm and nm != iname:
                    try:
                        serial = int(nm.rsplit("!", 1)[1])
                    except ValueError:
                        continue
                    if serial > n_before + 1:
                        # a value invented during this iteration (unknown call result ...) cannot be generalised over k
                        raise Unsupported("loop %d: appended element depends on a per-iteration unknown (%s)" % (s.get("loop", 0), nm))
        self.summarised.add("%s loop %d: append-fold summary, %d element(s) per iteration" % (
            self.prog.short(self.cur_func.full), s.get("loop", 0), w))
        if w == 0:
            return st
        # ---- closed form on the pre-loop state
        et = at.elem()
        esort = leaves(et)[0][1]
        key = self.mem_key(et, 0, esort)
        M = self.mem_arr(st, key, esort)
        old_arr = z3.Select(M, a0.rid)
        res = self.fresh_value(at, "fold")
        self.type_facts(st, res, at, param=False)
        total = idx(w) * n
        FA = self.fresh("fold@arr", z3.ArraySort(IS, esort))
        H0 = self.fresh("fold@old", z3.ArraySort(IS, esort))
        inplace = z3.And(res.rid == a0.rid, res.off == a0.off)
        fresh_r = z3.And(z3.UGE(res.rid, rid(ABSTRACT_BASE)), res.off == idx(0))
        p = z3.BitVec("p", IDX_BITS)
        kq = z3.BitVec("k", IDX_BITS)
        jq = z3.BitVec("j", IDX_BITS)
        win_lo, win_hi = a0.off + a0.ln, a0.off + a0.cap
        facts = [
            res.ln == a0.ln + total,
            z3.Or(n == idx(0), inplace, fresh_r),
            z3.Implies(n == idx(0), z3.And(res.rid == a0.rid, res.off == a0.off, res.cap == a0.cap)),
            z3.Implies(z3.And(inplace, n != idx(0)), res.cap == a0.cap),
            # the old array changes only in its spare capacity
            z3.ForAll([p], z3.Implies(z3.Not(z3.And(p >= win_lo, p < win_hi)), z3.Select(H0, p) == z3.Select(old_arr, p))),
            z3.Implies(res.rid == a0.rid, FA == H0),
            # prefix
            z3.ForAll([jq], z3.Implies(z3.And(jq >= 0, jq < a0.ln), z3.Select(FA, res.off + jq) == z3.Select(old_arr, a0.off + jq))),
        ]
        # elements
        chain = None
        for jj in range(w - 1, -1, -1):
            ej = z3.substitute(elems[jj], (i, kq))
            chain = ej if chain is None else z3.If(jq == idx(jj), ej, chain)
        # the loop ran to completion, so iteration k reached the end of its body: its element terms are read under
        # that path condition (the two facts travel together so that one instance carries both)
        through = z3.substitute(out.pc, (i, kq))
        if w == 1:
            # one element per iteration: a one-variable universal (matched against array reads of a goal)
            facts.append(z3.ForAll([kq], z3.Implies(z3.And(kq >= 0, kq < n),
                                                    z3.And(through, z3.Select(FA, res.off + a0.ln + kq) == z3.substitute(elems[0], (i, kq))))))
        else:
            facts.append(z3.ForAll([kq, jq], z3.Implies(z3.And(kq >= 0, kq < n, jq >= 0, jq < idx(w)),
                                                      z3.And(through, z3.Select(FA, res.off + a0.ln + idx(w) * kq + jq) == chain))))
        facts.append(z3.ForAll([kq], z3.Implies(z3.And(kq >= 0, kq < n), through)))
        self.frame_region_write(st.fork(zand(st.pc, n != idx(0), a0.cap > a0.ln)), a0.rid, win_lo)
        # The summary speaks about the state AFTER the loop ran to completion.  States that left the loop early (a
        # `return` inside the body) carry path conditions that extend the pre-loop one, so the summary facts are
        # guarded by a fresh literal that only the post-loop path condition contains -- otherwise "every iteration
        # reached the end of its body" would be assumed on the early-return paths too and make them vacuous.
        done = self.fresh("fold@done", z3.BoolSort())
        st.pc = zand(st.pc, done)
        for f in facts:
            self.assume(st, f)
        M1 = z3.Store(M, a0.rid, H0)
        st.mem[key] = z3.Store(M1, res.rid, FA)
        st.ghost["alloc"] = self.fresh("alloc@fold", z3.BitVecSort(64))
        self.lvalue(X, st).set(self, st, res)
        return st
