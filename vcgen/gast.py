"""Loading of the typed JSON AST produced by bin/goast (frontend/)."""
import json
import os
import subprocess

GOROOT_BIN = "/opt/veriftools/go1.26.8/bin"
MODPATH = "github.com/arloliu/go-secs/v2"


def go_env():
    env = dict(os.environ)
    env["PATH"] = GOROOT_BIN + ":" + env.get("PATH", "")
    env["GOFLAGS"] = "-mod=mod"
    env["GOPROXY"] = "off"
    env["GOSUMDB"] = "off"
    env["GOTOOLCHAIN"] = "local"
    return env


class Type:
    __slots__ = ("id", "k", "d", "prog")

    def __init__(self, d, prog):
        self.id = d["id"]
        self.k = d["k"]
        self.d = d
        self.prog = prog

    def __repr__(self):
        return "T<%s>" % self.d.get("s")

    @property
    def s(self):
        return self.d.get("s")

    def under(self):
        t = self
        while t.k in ("named", "alias"):
            t = self.prog.types[t.d["under"]]
        return t

    def elem(self):
        return self.prog.types[self.under().d["elem"]]

    def fields(self):
        u = self.under()
        return [(f["name"], self.prog.types[f["t"]], f["emb"]) for f in (u.d.get("fields") or [])]

    def name(self):
        t = self
        while t.k == "alias":
            t = self.prog.types[t.d["under"]]
        return t.d.get("name") or t.d.get("s")

    # classification helpers on the underlying type
    def is_int(self):
        u = self.under()
        return u.k == "basic" and u.d.get("b") == "int"

    def is_bool(self):
        u = self.under()
        return u.k == "basic" and u.d.get("b") == "bool"

    def is_float(self):
        u = self.under()
        return u.k == "basic" and u.d.get("b") == "float"

    def is_string(self):
        u = self.under()
        return u.k == "basic" and u.d.get("b") == "string"

    def bits(self):
        b = self.under().d.get("bits", 0)
        return b or 64

    def signed(self):
        return bool(self.under().d.get("signed", True))

    def untyped(self):
        return bool(self.under().d.get("untyped"))


class Func:
    def __init__(self, pkg, key, node):
        self.pkg = pkg
        self.key = key
        self.full = pkg.path + "." + key
        self.node = node
        self.spec = node.get("spec", False)
        self.file = node.get("file")
        self.contract = None

    def __repr__(self):
        return "Func<%s>" % self.full


class Contract:
    def __init__(self, d):
        self.d = d
        self.key = d["key"]
        self.flags = d.get("flags", {})
        self.clauses = d.get("clauses") or []
        self.error = d.get("error")

    def of(self, kind, loop=0):
        return [c for c in self.clauses if c["kind"] == kind and c.get("loop", 0) == loop]


class Package:
    def __init__(self, d):
        self.path = d["path"]
        self.name = d["name"]
        self.d = d
        self.funcs = {}
        self.contracts = {}


class Program:
    def __init__(self, doc):
        self.types = [None] * len(doc["types"])
        for t in doc["types"]:
            self.types[t["id"]] = Type(t, self)
        self.objects = doc["objects"]
        self.errors = doc.get("errors") or []
        self.packages = {}
        self.funcs = {}
        self.globals_init = {}  # obj id -> (pkg, expr node)
        for path, pd in doc["packages"].items():
            p = Package(pd)
            self.packages[path] = p
            for key, node in pd["funcs"].items():
                f = Func(p, key, node)
                p.funcs[key] = f
                self.funcs[f.full] = f
            for key, cd in (pd.get("contracts") or {}).items():
                c = Contract(cd)
                p.contracts[key] = c
                if key in p.funcs:
                    p.funcs[key].contract = c
            for vs in pd.get("vars") or []:
                names = vs.get("Names") or []
                vals = vs.get("Values") or []
                if len(names) == len(vals):
                    for n, v in zip(names, vals):
                        if "obj" in n:
                            self.globals_init[n["obj"]] = (p, v)

    def type(self, tid):
        return self.types[tid]

    def func(self, full):
        return self.funcs.get(full)

    def short(self, full):
        return full.replace(MODPATH + "/", "")


def load(patterns, repo="/repo", out=None, goast="/verif/bin/goast"):
    out = out or "/tmp/govc-ast-%d.json" % os.getpid()
    cmd = [goast, "-repo", repo, "-tags", "verif", "-out", out] + list(patterns)
    r = subprocess.run(cmd, env=go_env(), capture_output=True, text=True)
    if r.returncode != 0:
        raise RuntimeError("goast failed: " + r.stderr[-4000:])
    with open(out) as f:
        doc = json.load(f)
    os.unlink(out)
    return Program(doc)
