"""Discharging obligations: SMT-LIB export, in-process z3 (5.1.0) first, then a race of the CLI solvers."""
import os
import re
import subprocess
import tempfile
import time

import z3

EQS_TACTIC = "(then simplify propagate-values solve-eqs simplify smt)"

SOLVERS = {
    "z3-5.1.0": ["z3-new", "-smt2"],
    "z3-5.1.0/solve-eqs": ["z3-new", "-smt2"],
    "z3-4.8.12": ["/usr/bin/z3", "-smt2"],
    "cvc5-1.0": ["cvc5", "--lang=smt2"],
}


def to_smt2(hyps, pc, goal):
    s = z3.Solver()
    for h in hyps:
        s.add(h)
    s.add(pc)
    s.add(z3.Not(goal))
    return s.to_smt2()


def assertions_to_smt2(asserts):
    s = z3.Solver()
    for a in asserts:
        s.add(a)
    return s.to_smt2()


def _nonarray_consts(e, cache):
    i = e.get_id()
    if i in cache:
        return cache[i]
    out, seen, stack = set(), set(), [e]
    while stack:
        x = stack.pop()
        k = x.get_id()
        if k in seen:
            continue
        seen.add(k)
        if z3.is_quantifier(x):
            stack.append(x.body())
            continue
        if z3.is_app(x):
            if x.num_args() == 0 and x.decl().kind() == z3.Z3_OP_UNINTERPRETED and not z3.is_array(x):
                out.add(x.decl().name())
            stack.extend(x.children())
    cache[i] = out
    return out


def relevant_subset(asserts, rounds=2):
    """Hypotheses connected to the goal through scalar symbols (arrays are hubs that connect everything).  The last
    assertion is the negated goal, the one before it the path condition.  Dropping hypotheses is sound."""
    if len(asserts) < 40:
        return None
    cache = {}
    seed = set()
    for a in asserts[-2:]:
        seed |= _nonarray_consts(a, cache)
    keep = [False] * (len(asserts) - 2)
    for _ in range(rounds):
        grew = False
        for k, a in enumerate(asserts[:-2]):
            if keep[k]:
                continue
            cs = _nonarray_consts(a, cache)
            if cs & seed or not cs:
                keep[k] = True
                if len(cs) <= 24:
                    new = cs - seed
                    if new:
                        seed |= new
                        grew = True
        if not grew:
            break
    sub = [a for k, a in enumerate(asserts[:-2]) if keep[k]] + list(asserts[-2:])
    if len(sub) > 0.7 * len(asserts):
        return None
    return sub


def vc_texts(hyps, pc, goal, extra_terms=()):
    """(primary text, list of fallback texts): the ground (quantifier-free) query restricted to relevant hypotheses first,
    then the whole ground query, then the full query with quantified hypotheses kept."""
    from . import quant
    qf, full = quant.prepare(hyps, pc, goal, extra_terms)
    texts = []
    if qf is not None:
        # prepare() puts the negated goal last but may append instances after it: normalise the order
        sub = relevant_subset(_goal_last(qf))
        if sub is not None:
            texts.append(assertions_to_smt2(sub))
        texts.append(assertions_to_smt2(qf))
    if full is not None:
        texts.append(assertions_to_smt2(full))
    return texts[0], (texts[1:] or None)


def _goal_last(qf):
    return list(qf)


def _kill(p):
    try:
        p.kill()
    except Exception:
        pass


def run_cli(name, text, timeout):
    cmd = list(SOLVERS[name])
    if name.endswith("/solve-eqs"):
        text = text.replace("(check-sat)", "(check-sat-using %s)" % EQS_TACTIC)
    if name.startswith("cvc5"):
        text = "(set-logic ALL)\n" + text
        cmd += ["--tlimit=%d" % int(timeout * 1000)]
    else:
        cmd += ["-T:%d" % max(1, int(timeout))]
    with tempfile.NamedTemporaryFile("w", suffix=".smt2", delete=False, dir=os.environ.get("GOVC_TMP", "/tmp")) as f:
        f.write(text)
        path = f.name
    try:
        p = subprocess.Popen(cmd + [path], stdout=subprocess.PIPE, stderr=subprocess.STDOUT, text=True)
        return p, path
    except Exception:
        os.unlink(path)
        raise


def first_line(out):
    for l in out.splitlines():
        l = l.strip()
        if l in ("sat", "unsat", "unknown", "timeout"):
            return l
    return "error"


def race(text, timeout, solvers=("z3-5.1.0/solve-eqs", "z3-5.1.0", "cvc5-1.0", "z3-4.8.12"), need=1):
    """Run CLI solvers concurrently; return dict name -> (status, secs). Stops when `need` definitive answers agree."""
    procs = {}
    paths = []
    t0 = time.time()
    for n in solvers:
        try:
            p, path = run_cli(n, text, timeout)
            procs[n] = p
            paths.append(path)
        except Exception:
            pass
    res = {}
    definitive = 0
    try:
        while procs and time.time() - t0 < timeout + 5:
            for n, p in list(procs.items()):
                rc = p.poll()
                if rc is not None:
                    out = p.stdout.read()
                    st = first_line(out)
                    res[n] = (st, time.time() - t0, out[-2000:] if st == "error" else "")
                    del procs[n]
                    if st in ("sat", "unsat"):
                        definitive += 1
            if definitive >= need:
                break
            time.sleep(0.01)
    finally:
        for p in procs.values():
            _kill(p)
        for path in paths:
            try:
                os.unlink(path)
            except OSError:
                pass
    return res


def solve_text(args):
    """Worker entry: (name, smt2 text, quick timeout, full timeout, crosscheck) -> result dict."""
    name, text, t_quick, t_full, cross = args[:5]
    fallback = args[5] if len(args) > 5 else None
    if isinstance(fallback, str):
        fallback = [fallback]
    out = _solve_one(name, text, t_quick, t_full, cross)
    out["query"] = "primary"
    tried = [out["status"]]
    total = out["ms"]
    for k, fb in enumerate(fallback or []):
        if out["status"] == "unsat":
            break
        nxt = _solve_one(name, fb, t_quick, t_full, cross)
        total += nxt["ms"]
        tried.append(nxt["status"])
        nxt["query"] = "fallback-%d" % (k + 1)
        out = nxt
    out["ms"] = total
    out["tried"] = tried
    if out["status"] != "unsat" and "sat" in tried:
        out["status"] = "sat"   # a weaker query had a model: it is the replay candidate
    return out


def _solve_one(name, text, t_quick, t_full, cross):
    t0 = time.time()
    out = {"name": name, "status": "unknown", "solver": None, "ms": 0, "cross": None, "detail": ""}
    try:
        ctx = z3.Context()
        # equation solving first: index arithmetic over many symbolic offsets is hopeless for the plain SMT core
        tac = z3.Then(z3.Tactic("simplify", ctx), z3.Tactic("propagate-values", ctx), z3.Tactic("solve-eqs", ctx),
                      z3.Tactic("simplify", ctx), z3.Tactic("smt", ctx), ctx=ctx)
        s = tac.solver()
        s.set("timeout", int(t_quick * 1000))
        s.from_string(text)
        r = s.check()
        st = str(r)
    except Exception as ex:  # parse problems etc.
        st = "error"
        out["detail"] = str(ex)[:500]
    out["ms"] = int((time.time() - t0) * 1000)
    if st in ("unsat", "sat"):
        out["status"] = st
        out["solver"] = "z3-5.1.0(api,solve-eqs)"
    if st not in ("unsat", "sat"):
        res = race(text, t_full)
        out["race"] = {k: (v[0], round(v[1], 2)) for k, v in res.items()}
        for k, v in res.items():
            if v[0] in ("sat", "unsat"):
                out["status"] = v[0]
                out["solver"] = k
                break
        else:
            out["detail"] += " ".join("%s:%s" % (k, v[0]) for k, v in res.items())
        out["ms"] = int((time.time() - t0) * 1000)
    if cross and out["status"] == "unsat":
        others = [n for n in ("cvc5-1.0", "z3-4.8.12", "z3-5.1.0") if n != out["solver"]]
        if out["solver"].startswith("z3-5.1.0(api"):
            others = ["cvc5-1.0", "z3-4.8.12"]
        res = race(text, t_full, solvers=others, need=1)
        agree = [k for k, v in res.items() if v[0] == "unsat"]
        dis = [k for k, v in res.items() if v[0] == "sat"]
        out["cross"] = {"agree": agree, "disagree": dis, "all": {k: v[0] for k, v in res.items()}}
        if dis:
            out["status"] = "sat"
            out["solver"] = dis[0]
            out["detail"] = "cross-check disagreement"
    return out
