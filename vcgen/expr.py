"""Expression evaluation for the symbolic executor."""
import struct
import z3

from .values import *  # noqa
from .values import _byte_type
from .sym import (TRUE, FALSE, RS, IS, zand, zor, znot, zimp, State, LV, VarLV, FieldLV, HeapLV, ArrElemLV, SliceElemLV)

ERR_TAG = 0x7FFF0001     # dynamic type tag of library-created errors (*errors.errorString etc.)
BOX_NOTE = "interface values holding non-pointer dynamic types are boxed; == compares box identity"


def f64_bits(x):
    return struct.unpack(">Q", struct.pack(">d", x))[0]


def f32_bits(x):
    return struct.unpack(">I", struct.pack(">f", x))[0]


class ExprMixin:
    def T(self, e):
        return self.prog.types[e["t"]]

    # ------------------------------------------------------------ constants
    def const(self, e, st, t=None):
        cv = e["cv"]
        t = t or self.T(e)
        u = t.under()
        k = cv["k"]
        if u.k == "iface":
            # constant converted to interface: evaluate at its default type then box
            raise Unsupported("constant of interface type")
        if k == "bool":
            return z3.BoolVal(cv["v"])
        if k == "int":
            v = int(cv["v"])
            if t.is_float():
                return self.float_const(float(v), t)
            if not t.is_int():
                raise Unsupported("int constant of type %r" % t)
            return bv(v, t.bits())
        if k == "float":
            v = cv["v"]
            if t.is_int():
                return bv(int(float.fromhex(cv["f64"])), t.bits())
            return self.float_const(float.fromhex(cv["f64"]), t)
        if k == "string":
            return self.literal_string(st, cv["v"] if not isinstance(cv["v"], str) else self._b64(cv["v"]), t)
        raise Unsupported("constant kind " + k)

    def _b64(self, s):
        import base64
        return base64.b64decode(s)

    def float_const(self, x, t):
        if t.bits() == 32:
            return bv(f32_bits(x), 32)
        return bv(f64_bits(x), 64)

    # ------------------------------------------------------------ dispatcher
    def ev(self, e, st):
        if e is None:
            raise Unsupported("nil expression")
        if "cv" in e and e["k"] != "FuncLit":
            t = self.T(e)
            if t.under().k != "iface":
                return self.const(e, st)
        m = getattr(self, "ev_" + e["k"], None)
        if m is None:
            raise Unsupported("expression kind " + e["k"])
        return m(e, st)

    def ev_ParenExpr(self, e, st):
        return self.ev(e["X"], st)

    def ev_BasicLit(self, e, st):
        return self.const(e, st)

    def ev_Ident(self, e, st):
        if e["Name"] == "_":
            raise Unsupported("blank identifier read")
        if "obj" not in e:
            raise Unsupported("unresolved identifier " + e["Name"])
        oid = e["obj"]
        obj = self.prog.objects[oid]
        k = obj["k"]
        if k == "var":
            if obj.get("global"):
                return self.global_var(obj, st)
            if oid not in st.vars:
                raise Unsupported("variable %s not bound (line %s)" % (obj["name"], e.get("ln")))
            return st.vars[oid]
        if k == "nil":
            return self.zero_value(self.T(e))
        if k == "func":
            return FuncV("static", key=obj["key"])
        if k == "const":
            return self.const({"cv": obj["cv"], "t": obj["t"]}, st)
        raise Unsupported("identifier kind " + k)

    def global_var(self, obj, st):
        gid = obj["id"]
        if gid in self.globals:
            return self.globals[gid]
        t = self.prog.types[obj["t"]]
        name = "G_%s.%s" % (obj.get("pkg", "").split("/")[-1], obj["name"])
        init = self.prog.globals_init.get(gid)
        v = None
        if init is not None and t.under().k == "iface":
            p, node = init
            if node.get("k") == "CallExpr" and node.get("callee") in ("errors.New", "fmt.Errorf"):
                # a distinct, non-nil sentinel error
                v = IfaceV(rid(ERR_TAG), rid(0x30000000 + gid))
        if v is None:
            v = self.fresh_value(t, name)
            self.facts.append(TRUE)
            tmp = State()
            self.type_facts(tmp, v, t, param=True)
        self.assumptions.add("package-level variable %s.%s is read as an immutable value" % (obj.get("pkg", "").split("/")[-1], obj["name"]))
        self.globals[gid] = v
        return v

    # ------------------------------------------------------------ unary / binary
    def ev_UnaryExpr(self, e, st):
        op = e["Op"]
        if op == "&":
            return self.addr_of(e["X"], st)
        if op == "<-":
            return self.chan_recv(e, st)
        x = self.ev(e["X"], st)
        t = self.T(e["X"])
        if op == "!":
            return znot(x)
        if op == "-":
            if t.is_float():
                return self.fp_unop("neg", x, t)
            return -x
        if op == "+":
            return x
        if op == "^":
            return ~x
        raise Unsupported("unary " + op)

    def ev_BinaryExpr(self, e, st):
        op = e["Op"]
        if op == "&&":
            a = self.ev(e["X"], st)
            if z3.is_false(a):
                return FALSE
            b = self.ev_guarded(e["Y"], st, a)
            return zand(a, b)
        if op == "||":
            a = self.ev(e["X"], st)
            if z3.is_true(a):
                return TRUE
            b = self.ev_guarded(e["Y"], st, znot(a))
            return zor(a, b)
        tx = self.T(e["X"])
        ty = self.T(e["Y"])
        if op in ("<<", ">>"):
            x = self.ev(e["X"], st)
            y = self.ev(e["Y"], st)
            return self.shift(op, x, self.T(e), y, ty, st, e)
        # nil comparisons take the type of the non-nil side
        if e["X"].get("isnil") and not e["Y"].get("isnil"):
            tx = ty
        if e["Y"].get("isnil") and not e["X"].get("isnil"):
            ty = tx
        if op in ("==", "!=") and tx.under().k == "iface" and (e["X"].get("isnil") != e["Y"].get("isnil")):
            # interface compared with the nil literal: nil-ness is the dynamic type word alone
            v = self.ev(e["Y"] if e["X"].get("isnil") else e["X"], st)
            r = v.tag == rid(0)
            return r if op == "==" else znot(r)
        x = self.ev_typed(e["X"], tx, st)
        y = self.ev_typed(e["Y"], ty, st)
        # mixed interface / concrete comparison
        if op in ("==", "!=") and tx.under().k == "iface" and ty.under().k != "iface":
            y = self.coerce(y, ty, tx, st)
            ty = tx
        if op in ("==", "!=") and ty.under().k == "iface" and tx.under().k != "iface":
            x = self.coerce(x, tx, ty, st)
            tx = ty
        return self.binop(op, x, y, tx, st, e)

    def ev_typed(self, e, t, st):
        if e.get("isnil"):
            return self.zero_value(t)
        if "cv" in e and t.under().k != "iface":
            return self.const(e, st, t if self.T(e).untyped() else None)
        return self.ev(e, st)

    def ev_guarded(self, e, st, cond):
        """Evaluate e under the extra path condition cond (short-circuit operands)."""
        st2 = st.fork(zand(st.pc, cond))
        v = self.ev(e, st2)
        # propagate state changes (rare: calls with effects in a short-circuit operand)
        if st2.mem != st.mem or st2.heap != st.heap or st2.ghost != st.ghost or st2.vars != st.vars:
            other = st.fork(zand(st.pc, znot(cond)))
            pc = st.pc
            m = self.merge(st2, other)
            m.pc = pc
            st.assign_from(m)
        return v

    def shift(self, op, x, tx, y, ty, st, e):
        w = tx.bits()
        yw = ty.bits()
        if ty.signed() and not z3.is_bv_value(y):
            self.oblige(st, "safety", "shift-nonneg@%s" % self.site(e), y >= 0, e.get("ln"), "shift count must not be negative")
        if z3.is_bv_value(y):
            c = y.as_long()
            if ty.signed() and c >= (1 << (yw - 1)):
                raise Unsupported("negative constant shift")
            if c >= w:
                if op == "<<" or not tx.signed():
                    return bv(0, w)
                c = w - 1
            cnt = bv(c, w)
        else:
            if yw < w:
                cnt = z3.ZeroExt(w - yw, y)
            elif yw > w:
                cnt = z3.If(z3.UGE(y, bv(w, yw)), bv(w, w), z3.Extract(w - 1, 0, y))
            else:
                cnt = y
        if op == "<<":
            return x << cnt
        return (x >> cnt) if tx.signed() else z3.LShR(x, cnt)

    def binop(self, op, x, y, t, st, e):
        u = t.under()
        if u.k == "basic" and u.d.get("b") == "string":
            return self.string_binop(op, x, y, t, st, e)
        if t.is_float():
            return self.fp_binop(op, x, y, t)
        if t.is_int():
            s = t.signed()
            if op == "+":
                return x + y
            if op == "-":
                return x - y
            if op == "*":
                return x * y
            if op in ("/", "%"):
                self.oblige(st, "safety", "div-nonzero@%s" % self.site(e), y != 0, e.get("ln"), "division by zero")
                if op == "/":
                    return (x / y) if s else z3.UDiv(x, y)
                return z3.SRem(x, y) if s else z3.URem(x, y)
            if op == "&":
                return x & y
            if op == "|":
                return x | y
            if op == "^":
                return x ^ y
            if op == "&^":
                return x & ~y
            if op == "==":
                return x == y
            if op == "!=":
                return x != y
            if op == "<":
                return (x < y) if s else z3.ULT(x, y)
            if op == "<=":
                return (x <= y) if s else z3.ULE(x, y)
            if op == ">":
                return (x > y) if s else z3.UGT(x, y)
            if op == ">=":
                return (x >= y) if s else z3.UGE(x, y)
        if t.is_bool():
            if op == "==":
                return x == y
            if op == "!=":
                return x != y
        if op in ("==", "!="):
            r = self.equal(x, y, t, st)
            return r if op == "==" else znot(r)
        raise Unsupported("binary %s on %r" % (op, t))

    def equal(self, x, y, t, st):
        u = t.under()
        if u.k == "ptr":
            return x.oid == y.oid
        if u.k == "iface":
            return z3.And(x.tag == y.tag, x.oid == y.oid)
        if u.k in ("chan", "map", "other", "typeparam"):
            return x.term == y.term
        if u.k == "sig":
            # only comparison with nil is legal Go
            tx = x.term if isinstance(x, FuncV) else None
            ty = y.term if isinstance(y, FuncV) else None
            if tx is None and ty is not None:
                return FALSE if x.kind != "opaque" else tx == ty
            if ty is None and tx is not None:
                return FALSE
            if tx is None and ty is None:
                return FALSE
            return tx == ty
        if u.k == "slice":
            # only == nil is legal
            return z3.And(x.rid == y.rid, x.ln == y.ln, x.cap == y.cap)
        return eq_value(x, y, t)

    def string_binop(self, op, x, y, t, st, e):
        if op == "+":
            return self.concat(st, x, y)
        if op in ("==", "!="):
            r = self.string_eq(st, x, y)
            return r if op == "==" else znot(r)
        raise Unsupported("string " + op)

    def string_eq(self, st, x, y):
        lx = z3.simplify(x.ln)
        ly = z3.simplify(y.ln)
        n = None
        if z3.is_bv_value(lx):
            n = lx.as_long()
        elif z3.is_bv_value(ly):
            n = ly.as_long()
        if n is None or n > 256:
            (_, _, ax), = self.region_arrays(st, x)
            (_, _, ay), = self.region_arrays(st, y)
            j = self.fresh("seq", IS)
            return z3.And(x.ln == y.ln, z3.ForAll([j], z3.Implies(z3.And(j >= 0, j < x.ln), z3.Select(ax, x.off + j) == z3.Select(ay, y.off + j))))
        (_, _, ax), = self.region_arrays(st, x)
        (_, _, ay), = self.region_arrays(st, y)
        cs = [x.ln == y.ln]
        for i in range(n):
            cs.append(z3.Select(ax, x.off + idx(i)) == z3.Select(ay, y.off + idx(i)))
        return z3.And(*cs)

    def concat(self, st, x, y):
        bt = _byte_type(self.prog)
        n = x.ln + y.ln
        r = self.alloc_slice(st, bt, n, n, zero=False)
        (_, _, ax), = self.region_arrays(st, x)
        (_, _, ay), = self.region_arrays(st, y)
        a = self.memcpy(z3.K(IS, bv(0, 8)), idx(0), x.ln, ax, x.off)
        a = self.memcpy(a, x.ln, y.ln, ay, y.off)
        saved = self.frame_spec
        self.frame_spec = None
        self.region_store(st, r, [a])
        self.frame_spec = saved
        return SliceV(r.rid, idx(0), n, n, bt, isstr=True)

    # ------------------------------------------------------------ floating point
    def fp_sort(self, t):
        return z3.Float32() if t.bits() == 32 else z3.Float64()

    def to_fp(self, x, t):
        return z3.fpBVToFP(x, self.fp_sort(t))

    def from_fp(self, f):
        return z3.fpToIEEEBV(f)

    def fp_unop(self, op, x, t):
        if op == "neg":
            w = t.bits()
            return x ^ bv(1 << (w - 1), w)
        raise Unsupported("fp " + op)

    def fp_binop(self, op, x, y, t):
        fx = self.to_fp(x, t)
        fy = self.to_fp(y, t)
        rm = z3.RNE()
        if op == "+":
            return self.fp_result(z3.fpAdd(rm, fx, fy), t, "add", [x, y])
        if op == "-":
            return self.fp_result(z3.fpSub(rm, fx, fy), t, "sub", [x, y])
        if op == "*":
            return self.fp_result(z3.fpMul(rm, fx, fy), t, "mul", [x, y])
        if op == "/":
            return self.fp_result(z3.fpDiv(rm, fx, fy), t, "div", [x, y])
        if op == "==":
            return z3.fpEQ(fx, fy)
        if op == "!=":
            return z3.Not(z3.fpEQ(fx, fy))
        if op == "<":
            return z3.fpLT(fx, fy)
        if op == "<=":
            return z3.fpLEQ(fx, fy)
        if op == ">":
            return z3.fpGT(fx, fy)
        if op == ">=":
            return z3.fpGEQ(fx, fy)
        raise Unsupported("float " + op)

    def fp_result(self, f, t, op, operands):
        """FP term -> bit pattern.  The result is a function application res_<op>(operand bits) constrained to be an
        IEEE encoding of f: equal operands give equal result bits (the hardware is deterministic, also in the NaN
        payload it produces), and the application survives substitution of its operands (loop summaries)."""
        w = t.bits()
        fn = z3.Function("fp_%s_%s_%d" % (op, "_".join(str(o.sort().size()) for o in operands), w),
                         *([o.sort() for o in operands] + [z3.BitVecSort(w)]))
        r = fn(*operands)
        n0 = len(self.facts)
        self.facts.append(z3.fpBVToFP(r, self.fp_sort(t)) == f)
        if len(self.facts) > n0:
            self.fp_defs.add(n0)
        return r

    # ------------------------------------------------------------ conversions
    def convert(self, v, ft, tt, st, e=None):
        fu, tu = ft.under(), tt.under()
        if tu.k == "iface":
            return self.coerce(v, ft, tt, st)
        if ft.is_int() and tt.is_int():
            fb, tb = ft.bits(), tt.bits()
            if tb == fb:
                return v
            if tb < fb:
                return z3.Extract(tb - 1, 0, v)
            return z3.SignExt(tb - fb, v) if ft.signed() else z3.ZeroExt(tb - fb, v)
        if ft.is_int() and tt.is_float():
            f = z3.fpSignedToFP(z3.RNE(), v, self.fp_sort(tt)) if ft.signed() else z3.fpUnsignedToFP(z3.RNE(), v, self.fp_sort(tt))
            return self.fp_result(f, tt, "i2f_s" if ft.signed() else "i2f_u", [v])
        if ft.is_float() and tt.is_float():
            if ft.bits() == tt.bits():
                return v
            f = z3.fpFPToFP(z3.RNE(), self.to_fp(v, ft), self.fp_sort(tt))
            return self.fp_result(f, tt, "f2f", [v])
        if ft.is_float() and tt.is_int():
            f = self.to_fp(v, ft)
            tb = tt.bits()
            r = z3.Function("f2i_%s_%d_%d" % ("s" if tt.signed() else "u", ft.bits(), tb), v.sort(), z3.BitVecSort(tb))(v)
            conv = z3.fpToSBV(z3.RTZ(), f, z3.BitVecSort(tb)) if tt.signed() else z3.fpToUBV(z3.RTZ(), f, z3.BitVecSort(tb))
            lo, hi = self.int_range_fp(tt, ft)
            inrange = z3.And(z3.Not(z3.fpIsNaN(f)), z3.fpGT(f, lo), z3.fpLT(f, hi))
            # out of range / NaN: implementation-defined result -> unconstrained
            n0 = len(self.facts)
            self.facts.append(z3.Implies(inrange, r == conv))
            if len(self.facts) > n0:
                self.fp_defs.add(n0)
            return r
        if ft.is_string() and tu.k == "slice":
            return self.clone_bytes(st, v, tt.elem(), isstr=False)
        if fu.k == "slice" and tt.is_string():
            return self.clone_bytes(st, v, _byte_type(self.prog), isstr=True)
        if ft.is_string() and tt.is_string():
            return v
        if fu.k == tu.k and fu.k in ("slice", "ptr", "struct", "array", "sig", "map", "chan"):
            if fu.k == "ptr":
                return PtrV(v.oid, tt.elem())
            if fu.k == "struct":
                return StructV(tt, dict(v.f))
            return v
        if fu.k == "slice" and tu.k == "array":
            n = tu.d["len"]
            if e is not None:
                self.oblige(st, "safety", "slice-to-array@%s" % self.site(e), v.ln >= idx(n), e.get("ln"), "slice shorter than array")
            (_, _, a), = self.region_arrays(st, v)
            return ArrV(n, tt.elem(), term=self.memcpy(z3.K(IS, self.zero_scalar(tt.elem())), idx(0), idx(n), a, v.off))
        if fu.k == "basic" and fu.d.get("b") == "other" or tu.k == "basic" and tu.d.get("b") == "other":
            # unsafe.Pointer conversions
            if isinstance(v, PtrV):
                return OpaqueV(v.oid, tt)
            if isinstance(v, OpaqueV) and tu.k == "ptr":
                return PtrV(v.term, tt.elem())
            return v
        if ft.is_int() and tt.is_string():
            # string(rune): the UTF-8 encoding, 1..4 bytes; exact for ASCII (one byte equal to the rune), abstract otherwise
            bt = _byte_type(self.prog)
            n = self.fresh("runelen", IS)
            r = self.alloc_slice(st, bt, n, n, zero=False)
            w = v.size()
            self.assume(st, z3.And(n >= 1, n <= 4, (n == 1) == z3.And(v >= 0, v < bv(0x80, w))))
            a = self.fresh("runebytes", z3.ArraySort(IS, z3.BitVecSort(8)))
            self.assume(st, z3.Implies(n == 1, z3.Select(a, idx(0)) == z3.Extract(7, 0, v)))
            saved = self.frame_spec
            self.frame_spec = None
            self.region_store(st, r, [a])
            self.frame_spec = saved
            return SliceV(r.rid, idx(0), n, n, bt, isstr=True)
        if ft.is_bool() and tt.is_bool():
            return v
        raise Unsupported("conversion %r -> %r" % (ft, tt))

    def zero_scalar(self, t):
        s = scalar_sort(t)
        return FALSE if s == z3.BoolSort() else z3.BitVecVal(0, s.size())

    def int_range_fp(self, it, ft):
        fs = self.fp_sort(ft)
        b = it.bits()
        if it.signed():
            lo = -(2.0 ** (b - 1)) - 1.0
            hi = 2.0 ** (b - 1)
        else:
            lo = -1.0
            hi = 2.0 ** b
        return z3.FPVal(lo, fs), z3.FPVal(hi, fs)

    def clone_bytes(self, st, v, elem, isstr):
        r = self.alloc_slice(st, elem, v.ln, v.ln, zero=False)
        (_, _, a), = self.region_arrays(st, v)
        arr = self.memcpy(z3.K(IS, bv(0, 8)), idx(0), v.ln, a, v.off)
        saved = self.frame_spec
        self.frame_spec = None
        self.region_store(st, r, [arr])
        self.frame_spec = saved
        return SliceV(r.rid, idx(0), v.ln, v.ln, elem, isstr=isstr)

    def type_tag(self, t):
        """Concrete dynamic-type tag of a Go type (its id in the front end's type table + 1)."""
        while t.k == "alias":
            t = self.prog.types[t.d["under"]]
        return t.id + 1

    def coerce(self, v, ft, tt, st):
        """Implicit assignment conversion (value of type ft used as type tt)."""
        if ft is tt or ft.id == tt.id:
            return v
        fu, tu = ft.under(), tt.under()
        if tu.k == "iface":
            if fu.k == "iface":
                return v
            if fu.k == "ptr":
                return IfaceV(rid(self.type_tag(ft)), v.oid)
            # box a non-pointer value
            self.assumptions.add(BOX_NOTE)
            box = self.fresh_rid()
            lv = HeapLV(box, ft, None, ft)
            saved = self.frame_spec
            self.frame_spec = None
            lv.set(self, st, v)
            self.frame_spec = saved
            return IfaceV(rid(self.type_tag(ft)), box)
        if isinstance(v, StructV) and v.typ is not tt and tu.k == "struct":
            return StructV(tt, dict(v.f))
        if isinstance(v, PtrV) and tu.k == "ptr":
            return v
        return v

    def unbox(self, iv, t, st):
        """Value of dynamic type t held by interface value iv (caller established the tag)."""
        if t.under().k == "ptr":
            return PtrV(iv.oid, t.elem())
        if t.under().k == "iface":
            return iv
        return HeapLV(iv.oid, t, None, t).get(self, st)

    # ------------------------------------------------------------ selectors / indexing
    def ev_SelectorExpr(self, e, st):
        sel = e.get("sel")
        if sel is None:
            # qualified identifier pkg.Name
            return self.ev_Ident(e["Sel"], st)
        if sel["kind"] == "field":
            return self.lvalue(e, st).get(self, st)
        if sel["kind"] == "method":
            obj = self.prog.objects[sel["obj"]]
            recv = self.ev(e["X"], st)
            return FuncV("bound", key=obj["key"], recv=(recv, self.T(e["X"])), node=e)
        raise Unsupported("selector kind " + sel["kind"])

    def field_path(self, t, index):
        """Follow a go/types selection index path from type t; yields (struct type, field name, field type, via_ptr)."""
        out = []
        cur = t
        for i in index:
            via_ptr = False
            if cur.under().k == "ptr":
                cur = cur.elem()
                via_ptr = True
            fs = cur.fields()
            name, ft, _ = fs[i]
            out.append((cur, name, ft, via_ptr))
            cur = ft
        return out

    def lvalue(self, e, st):
        k = e["k"]
        if k == "ParenExpr":
            return self.lvalue(e["X"], st)
        if k == "Ident":
            obj = self.prog.objects[e["obj"]]
            if obj["k"] != "var":
                raise Unsupported("lvalue of " + obj["k"])
            if obj.get("global"):
                raise Unsupported("assignment to / address of package-level variable " + obj["name"])
            return VarLV(e["obj"], self.T(e))
        if k == "SelectorExpr":
            sel = e.get("sel")
            if sel is None or sel["kind"] != "field":
                raise Unsupported("lvalue selector")
            xt = self.T(e["X"])
            path = self.field_path(xt, sel["index"])
            cur_lv = None
            cur_val = None
            # base
            first = True
            for (stype, name, ft, via_ptr) in path:
                if via_ptr:
                    p = cur_lv.get(self, st) if cur_lv is not None else (cur_val if cur_val is not None else self.ev(e["X"], st))
                    self.oblige(st, "safety", "nil-deref@%s" % self.site(e), p.oid != rid(0), e.get("ln"), "nil pointer dereference")
                    cur_lv = self.field_lv(p, stype, name, ft)
                else:
                    if cur_lv is None:
                        if first:
                            try:
                                base = self.lvalue(e["X"], st)
                            except Unsupported:
                                base = None
                            if base is None:
                                val = self.ev(e["X"], st)
                                base = _ConstLV(val, xt)
                            cur_lv = base
                    if isinstance(cur_lv, HeapLV) and cur_lv.name is not None:
                        cur_lv = HeapLV(cur_lv.oid, cur_lv.owner, cur_lv.name + "." + name, ft)
                    else:
                        cur_lv = FieldLV(cur_lv, name, ft)
                first = False
            return cur_lv
        if k == "IndexExpr":
            xt = self.T(e["X"])
            u = xt.under()
            if u.k == "ptr":  # pointer to array
                raise Unsupported("index through pointer to array")
            i = self.index_value(e["Index"], st)
            if u.k == "array":
                try:
                    base = self.lvalue(e["X"], st)
                except Unsupported:
                    base = _ConstLV(self.ev(e["X"], st), xt)
                n = u.d["len"]
                self.oblige(st, "safety", "index@%s" % self.site(e), z3.And(i >= 0, i < idx(n)), e.get("ln"), "array index in range")
                return ArrElemLV(base, i, xt.elem())
            if u.k == "slice" or xt.is_string():
                sl = self.ev(e["X"], st)
                self.oblige(st, "safety", "index@%s" % self.site(e), z3.And(i >= 0, i < sl.ln), e.get("ln"), "index in range")
                return SliceElemLV(sl, i, sl.elem)
            if u.k == "map":
                raise Unsupported("map index")
            raise Unsupported("index of %r" % xt)
        if k == "StarExpr":
            p = self.ev(e["X"], st)
            self.oblige(st, "safety", "nil-deref@%s" % self.site(e), p.oid != rid(0), e.get("ln"), "nil pointer dereference")
            return self.deref_lv(p, self.T(e))
        if k == "CompositeLit" or k == "CallExpr":
            return _ConstLV(self.ev(e, st), self.T(e))
        raise Unsupported("lvalue of " + k)

    def field_lv(self, p, stype, name, ft):
        """Heap cell of field `name` of the struct p points to (p may be an interior pointer)."""
        root = getattr(p, "root", None)
        if root is not None and root[0] == "@opaque":
            raise Unsupported("access through an interior pointer &a[i]")
        if root is not None:
            return HeapLV(p.oid, root[0], ".".join(root[1] + (name,)), ft)
        return HeapLV(p.oid, stype, name, ft)

    def deref_lv(self, p, t):
        if getattr(p, "root", None) is not None and p.root[0] == "@opaque":
            raise Unsupported("access through an interior pointer &a[i]")
        if t.under().k == "struct":
            return _StructHeapLV(p, t, self)
        return HeapLV(p.oid, t, None, t)

    def index_value(self, e, st):
        v = self.ev(e, st)
        t = self.T(e)
        if not t.is_int():
            raise Unsupported("non-integer index")
        b = t.bits()
        if b < 64:
            v = z3.SignExt(64 - b, v) if t.signed() else z3.ZeroExt(64 - b, v)
        elif not t.signed():
            # uint64 index: must also be < 2^63 to be in range; treat as signed after range check
            pass
        return v

    def ev_IndexExpr(self, e, st):
        xt = self.T(e["X"])
        if xt.under().k == "sig" or e["X"].get("k") == "Ident" and self.prog.objects.get(e["X"].get("obj"), {}) if False else False:
            pass
        if xt.under().k == "sig":
            # generic instantiation f[T]
            return self.ev(e["X"], st)
        return self.lvalue(e, st).get(self, st)

    def ev_StarExpr(self, e, st):
        return self.lvalue(e, st).get(self, st)

    def ev_SliceExpr(self, e, st):
        xt = self.T(e["X"])
        u = xt.under()
        lo = self.index_value(e["Low"], st) if e.get("Low") else idx(0)
        if u.k == "ptr":
            raise Unsupported("slice of pointer to array")
        if u.k == "array":
            base = self.lvalue(e["X"], st)
            n = u.d["len"]
            hi = self.index_value(e["High"], st) if e.get("High") else idx(n)
            mx = self.index_value(e["Max"], st) if e.get("Max") else idx(n)
            self.oblige(st, "safety", "slice@%s" % self.site(e), z3.And(lo >= 0, lo <= hi, hi <= mx, mx <= idx(n)), e.get("ln"), "slice bounds in range")
            return SliceV(None, z3.simplify(lo), z3.simplify(hi - lo), z3.simplify(mx - lo), xt.elem(), lv=base)
        sl = self.ev(e["X"], st)
        if xt.is_string():
            hi = self.index_value(e["High"], st) if e.get("High") else sl.ln
            self.oblige(st, "safety", "slice@%s" % self.site(e), z3.And(lo >= 0, lo <= hi, hi <= sl.ln), e.get("ln"), "string slice bounds in range")
            return SliceV(sl.rid, sl.off + lo, hi - lo, hi - lo, sl.elem, lv=sl.lv, isstr=True, snap=sl.snap)
        hi = self.index_value(e["High"], st) if e.get("High") else sl.ln
        mx = self.index_value(e["Max"], st) if e.get("Max") else sl.cap
        self.oblige(st, "safety", "slice@%s" % self.site(e), z3.And(lo >= 0, lo <= hi, hi <= mx, mx <= sl.cap), e.get("ln"), "slice bounds in range")
        return SliceV(sl.rid, sl.off + lo, hi - lo, mx - lo, sl.elem, lv=sl.lv, snap=sl.snap)

    def site(self, e):
        """Stable site label: ordinal of this syntactic node among obligations of the same kind in the function
        (not a line number, so unrelated edits above do not rename obligations)."""
        key = id(e)
        m = self.site_ids.setdefault(self.cur_func.full if self.cur_func else "", {})
        if key not in m:
            m[key] = len(m) + 1
        return str(m[key])

    # ------------------------------------------------------------ composite literals, address-of
    def ev_CompositeLit(self, e, st):
        t = self.T(e)
        u = t.under()
        if u.k == "struct":
            fs = t.fields()
            vals = {name: None for name, _, _ in fs}
            for i, el in enumerate(e.get("Elts") or []):
                if el["k"] == "KeyValueExpr":
                    name = el["Key"]["Name"]
                    ft = [x for x in fs if x[0] == name][0][1]
                    vals[name] = self.ev_assign(el["Value"], ft, st)
                else:
                    name, ft, _ = fs[i]
                    vals[name] = self.ev_assign(el, ft, st)
            for name, ft, _ in fs:
                if vals[name] is None:
                    vals[name] = self.zero_value(ft)
            return StructV(t, vals)
        if u.k == "array":
            n = u.d["len"]
            et = t.elem()
            a = self.zero_value(t)
            pos = 0
            for el in e.get("Elts") or []:
                if el["k"] == "KeyValueExpr":
                    pos = int(el["Key"]["cv"]["v"])
                    v = self.ev_assign(el["Value"], et, st)
                else:
                    v = self.ev_assign(el, et, st)
                a = self.arr_set(a, idx(pos), v)
                pos += 1
            return a
        if u.k == "slice":
            et = t.elem()
            elts = e.get("Elts") or []
            vals = []
            pos = 0
            for el in elts:
                if el["k"] == "KeyValueExpr":
                    pos = int(el["Key"]["cv"]["v"])
                    v = self.ev_assign(el["Value"], et, st)
                else:
                    v = self.ev_assign(el, et, st)
                vals.append((pos, v))
                pos += 1
            n = max([p for p, _ in vals] + [-1]) + 1
            sl = self.alloc_slice(st, et, idx(n), idx(n))
            saved = self.frame_spec
            self.frame_spec = None
            for p, v in vals:
                self.slice_set(st, sl, idx(p), v)
            self.frame_spec = saved
            return sl
        raise Unsupported("composite literal of %r" % t)

    def ev_assign(self, e, tt, st):
        """Evaluate e for assignment to a location of type tt (implicit conversion)."""
        if e.get("isnil"):
            return self.zero_value(tt)
        ft = self.T(e)
        if "cv" in e and tt.under().k != "iface":
            return self.const(e, st, tt if ft.untyped() else None)
        v = self.ev(e, st)
        return self.coerce(v, ft, tt, st)

    def addr_of(self, x, st):
        k = x["k"]
        if k == "ParenExpr":
            return self.addr_of(x["X"], st)
        if k == "CompositeLit":
            v = self.ev(x, st)
            return self.new_object(st, v, self.T(x))
        if k == "Ident":
            obj = self.prog.objects[x["obj"]]
            if x["obj"] in self.escaped:
                return self.escaped_ptr(x["obj"], st)
            raise Unsupported("address of local %s (not marked escaped)" % obj["name"])
        if k == "SelectorExpr":
            # &p.f : interior pointer to a struct-typed field of a heap object
            sel = x.get("sel")
            if sel and sel["kind"] == "field" and self.T(x).under().k == "struct":
                path = self.field_path(self.T(x["X"]), sel["index"])
                if path and path[0][3] and not any(pp[3] for pp in path[1:]):
                    p = self.ev(x["X"], st)
                    root = getattr(p, "root", None) or (path[0][0], ())
                    return PtrV(p.oid, self.T(x), root=(root[0], root[1] + tuple(pp[1] for pp in path)))
            raise Unsupported("interior pointer &x.f")
        if k == "IndexExpr":
            # &s[i] on a slice: the index obligation is generated as for a read; the pointer itself is an opaque
            # non-nil address (nothing may be read or written through it inside the function under proof -
            # deref_lv/field_lv refuse it - so the missing alias with the slice cell cannot be observed).
            if self.T(x["X"]).under().k != "slice":
                raise Unsupported("interior pointer &a[i]")
            self.lvalue(x, st)     # emits index@site
            return PtrV(self.fresh_rid(), self.T(x), root=("@opaque", ()))
        raise Unsupported("address of " + k)

    def new_object(self, st, v, t):
        o = self.fresh_rid()
        saved = self.frame_spec
        self.frame_spec = None
        if t.under().k == "struct":
            for name, ft, _ in t.fields():
                try:
                    HeapLV(o, t, name, ft).set(self, st, v.f[name])
                except Unsupported as ex:
                    self.notes.append("field %s.%s not modelled: %s" % (t.s, name, ex))
        else:
            HeapLV(o, t, None, t).set(self, st, v)
        self.frame_spec = saved
        self.count_alloc(st, idx(1), t)
        return PtrV(o, t)

    def ev_FuncLit(self, e, st):
        return FuncV("lit", node=e, env=st)

    def ev_KeyValueExpr(self, e, st):
        raise Unsupported("bare key-value")

    def ev_TypeAssertExpr(self, e, st):
        v = self.ev(e["X"], st)
        tt = self.T(e) if not e.get("commaok") else None
        t = self.prog.types[e["Type"]["t"]]
        ok = self.has_dyn_type(v, t)
        self.oblige(st, "safety", "type-assert@%s" % self.site(e), ok, e.get("ln"), "single-result type assertion must hold")
        return self.unbox(v, t, st)

    def has_dyn_type(self, iv, t):
        if t.under().k == "iface":
            return self.implements(iv.tag, t)
        return iv.tag == rid(self.type_tag(t))

    def implements(self, tag, it):
        f = z3.Function("implements_%d" % it.id, RS, z3.BoolSort())
        return z3.And(tag != rid(0), f(tag))

    def ev_CallExpr(self, e, st):
        return self.call(e, st)


class _ConstLV(LV):
    """A non-addressable value used as the base of a selector / index chain."""

    def __init__(self, v, typ):
        self.v = v
        self.typ = typ

    def get(self, ex, st):
        return self.v

    def set(self, ex, st, v):
        self.v = v


class _StructHeapLV(LV):
    """*p for a struct pointee: one heap cell per field."""

    def __init__(self, p, typ, ex):
        self.p = p
        self.typ = typ

    def get(self, ex, st):
        f = {}
        for name, ft, _ in self.typ.fields():
            try:
                f[name] = ex.field_lv(self.p, self.typ, name, ft).get(ex, st)
            except Unsupported:
                f[name] = None
        return StructV(self.typ, f)

    def set(self, ex, st, v):
        for name, ft, _ in self.typ.fields():
            if v.f.get(name) is not None:
                ex.field_lv(self.p, self.typ, name, ft).set(ex, st, v.f[name])
