"""Forward symbolic executor over the typed Go AST -> named proof obligations (DESIGN.md 3.3)."""
import struct
import z3

from .values import (RID_BITS, IDX_BITS, LIT_BASE, FRESH_BASE, ABSTRACT_BASE, MAXLEN, Unsupported, bv, idx, rid, SliceV, ArrV, StructV,
                     PtrV, IfaceV, FuncV, OpaqueV, TupleV, is_scalar_type, scalar_sort, sort_key, leaves, flatten,
                     unflatten, ite_value, eq_value, _byte_type, rid_flags)

TRUE = z3.BoolVal(True)
FALSE = z3.BoolVal(False)
RS = z3.BitVecSort(RID_BITS)
IS = z3.BitVecSort(IDX_BITS)


def zand(*xs):
    xs = [x for x in xs if not z3.is_true(x)]
    if not xs:
        return TRUE
    if any(z3.is_false(x) for x in xs):
        return FALSE
    return xs[0] if len(xs) == 1 else z3.And(*xs)


def zor(*xs):
    xs = [x for x in xs if not z3.is_false(x)]
    if not xs:
        return FALSE
    if any(z3.is_true(x) for x in xs):
        return TRUE
    return xs[0] if len(xs) == 1 else z3.Or(*xs)


def znot(x):
    if z3.is_true(x):
        return FALSE
    if z3.is_false(x):
        return TRUE
    return z3.Not(x)


def zimp(a, b):
    if z3.is_true(a):
        return b
    if z3.is_false(a) or z3.is_true(b):
        return TRUE
    return z3.Implies(a, b)


class State:
    def __init__(self):
        self.vars = {}
        self.mem = {}
        self.heap = {}
        self.pc = TRUE
        self.ghost = {}

    def fork(self, pc=None):
        s = State()
        s.vars = dict(self.vars)
        s.mem = dict(self.mem)
        s.heap = dict(self.heap)
        s.ghost = dict(self.ghost)
        s.pc = self.pc if pc is None else pc
        return s

    def assign_from(self, o):
        self.vars, self.mem, self.heap, self.pc, self.ghost = o.vars, o.mem, o.heap, o.pc, o.ghost


class Obligation:
    def __init__(self, name, kind, pc, goal, nfacts, ln, func, text="", canary=False):
        self.name = name
        self.kind = kind
        self.pc = pc
        self.goal = goal
        self.nfacts = nfacts
        self.ln = ln
        self.func = func
        self.text = text
        self.canary = canary
        self.inputs = None
        self.extra = []      # facts produced while evaluating this obligation's own clause


# ---------------------------------------------------------------- lvalues

class LV:
    typ = None

    def get(self, ex, st):
        raise NotImplementedError

    def set(self, ex, st, v):
        raise NotImplementedError


class VarLV(LV):
    def __init__(self, obj, typ):
        self.obj = obj
        self.typ = typ

    def get(self, ex, st):
        if self.obj not in st.vars:
            raise Unsupported("variable %s not bound" % ex.prog.objects[self.obj]["name"])
        return st.vars[self.obj]

    def set(self, ex, st, v):
        st.vars[self.obj] = v


class FieldLV(LV):
    def __init__(self, parent, name, typ):
        self.parent = parent
        self.name = name
        self.typ = typ

    def get(self, ex, st):
        return self.parent.get(ex, st).f[self.name]

    def set(self, ex, st, v):
        s = self.parent.get(ex, st).copy()
        s.f[self.name] = v
        self.parent.set(ex, st, s)


class HeapLV(LV):
    """A heap cell: field `name` of object oid of struct type tname, or the pointee itself (name None)."""

    def __init__(self, oid, owner, name, typ):
        self.oid = oid
        self.owner = owner  # Type of the struct / pointee
        self.name = name
        self.typ = typ

    def keys(self, ex):
        out = []
        self._keys(ex.heap_key(self.owner, self.name), self.typ, out, 0)
        return out

    def flags(self):
        out = []
        self._flags(self.typ, out, 0)
        return out

    def _flags(self, typ, out, depth):
        if typ.under().k == "struct" and depth < 8:
            for name, ft, _ in typ.fields():
                self._flags(ft, out, depth + 1)
            return
        out.extend(rid_flags(typ))

    def _keys(self, base, typ, out, depth):
        # nested struct fields get one key per innermost non-struct field, so that an interior pointer
        # (root type + field path) and the enclosing object address the same cells
        if typ.under().k == "struct" and depth < 8:
            for name, ft, _ in typ.fields():
                self._keys(base + "." + name, ft, out, depth + 1)
            return
        for i, (_, s) in enumerate(leaves(typ)):
            out.append((base + "#%d" % i, s))

    def get(self, ex, st):
        terms = []
        ks = self.keys(ex)
        for k, s in ks:
            terms.append(z3.Select(ex.heap_arr(st, k, s), self.oid))
        if True:
            # every region / object id stored in the PRE-state heap denotes something that existed before the call
            try:
                flags = self.flags()
            except Unsupported:
                flags = []
            for (k, s), isrid in zip(ks, flags):
                if isrid:
                    # (objects that existed before the call only: the same array at a fresh object's index stands for
                    # the fields of an object a callee allocated, which may point to other fresh objects)
                    ex.facts.append(z3.Implies(z3.ULT(self.oid, rid(FRESH_BASE)),
                                               z3.ULT(z3.Select(z3.Array("H_" + k, RS, s), self.oid), rid(FRESH_BASE))))
        v, _ = unflatten(self.typ, terms)
        if True:
            try:
                ex.type_facts(st, v, self.typ, param=False)
            except Unsupported:
                pass
        return v

    def set(self, ex, st, v):
        ex.frame_obj_write(st, self.oid, self.owner, self.name)
        terms = flatten(v, self.typ)
        for (k, s), t in zip(self.keys(ex), terms):
            st.heap[k] = z3.Store(ex.heap_arr(st, k, s), self.oid, t)


class ArrElemLV(LV):
    def __init__(self, parent, index, typ):
        self.parent = parent
        self.index = index
        self.typ = typ

    def get(self, ex, st):
        a = self.parent.get(ex, st)
        return ex.arr_get(a, self.index)

    def set(self, ex, st, v):
        a = self.parent.get(ex, st)
        self.parent.set(ex, st, ex.arr_set(a, self.index, v))


class SliceElemLV(LV):
    def __init__(self, sl, index, typ):
        self.sl = sl
        self.index = index
        self.typ = typ

    def get(self, ex, st):
        return ex.slice_get(st, self.sl, self.index)

    def set(self, ex, st, v):
        ex.slice_set(st, self.sl, self.index, v)


class Frame:
    def __init__(self, func):
        self.func = func
        self.rets = []       # (state, [values])
        self.loops = []      # stack of dict(breaks=[], continues=[])
        self.defers = []
        self.named_results = []


class FactList(list):
    """Hypotheses in program order; a formula that is already present is not added again (definitional facts about
    heap reads are re-derived every time a clause is evaluated)."""

    def __init__(self):
        list.__init__(self)
        self._ids = set()

    def append(self, f):
        if z3.is_true(f):
            return
        i = f.get_id()
        if i in self._ids:
            return
        self._ids.add(i)
        list.append(self, f)

    def cut(self, n):
        """Remove and return the facts added after position n (facts that only define symbols used by one clause)."""
        tail = list(self[n:])
        for f in tail:
            self._ids.discard(f.get_id())
        del self[n:]
        return tail


class Executor:
    def __init__(self, prog, cfg=None):
        self.prog = prog
        self.cfg = cfg or {}
        self.obligations = []
        self.facts = FactList()
        self.fp_defs = set()  # indexes of facts that only define the IEEE meaning of an FP result symbol
        self.fact_pcs = {}   # fact index -> path condition it was assumed under (for relevance pruning)
        self.n = 0
        self.spec = 0
        self.frames = []
        self.clause_ctx = []
        self.assumptions = set()
        self.notes = []
        self.lit_regions = {}
        self.nfresh = 0
        self.globals = {}
        self.cur_func = None
        self.inputs = []     # (name, term, kind) of the function under proof
        self.call_depth = 0
        self.frame_spec = None
        self.sym_rids = []

    # ------------------------------------------------------------ helpers
    def fresh(self, name, sort):
        self.n += 1
        return z3.Const("%s!%d" % (name, self.n), sort)

    def fresh_rid(self):
        """A newly allocated region / object id. It differs from every symbolic id that already exists (parameters,
        values havoc'd at a loop head, callee results): those were created before this allocation."""
        self.nfresh += 1
        return rid(FRESH_BASE + self.nfresh)

    def fresh_value(self, t, name):
        """A symbolic value.  Every region / object id in it exists already: it is an old id, one of the ids this
        execution has allocated so far, or an id from abstracted code (the band above ABSTRACT_BASE, which the
        concrete allocation counter never reaches) — so it can never equal an id allocated later."""
        ls = leaves(t)
        terms = [self.fresh(name + ("." + ".".join(str(x) for x in p) if p else ""), s) for p, s in ls]
        v, _ = unflatten(t, terms)
        ids = []
        self.collect_rids(v, ids)
        for x in ids:
            self.facts.append(z3.Or(z3.ULE(x, rid(FRESH_BASE + self.nfresh)), z3.UGE(x, rid(ABSTRACT_BASE))))
        return v

    def collect_rids(self, v, out):
        if isinstance(v, SliceV):
            if v.rid is not None:
                out.append(v.rid)
        elif isinstance(v, PtrV):
            out.append(v.oid)
        elif isinstance(v, IfaceV):
            out.append(v.oid)
        elif isinstance(v, StructV):
            for x in v.f.values():
                if x is not None:
                    self.collect_rids(x, out)
        elif isinstance(v, ArrV) and v.items is not None:
            for x in v.items:
                self.collect_rids(x, out)

    def zero_value(self, t):
        terms = []
        for p, s in leaves(t):
            if s == z3.BoolSort():
                terms.append(FALSE)
            elif z3.is_bv_sort(s):
                terms.append(z3.BitVecVal(0, s.size()))
            elif isinstance(s, z3.ArraySortRef):
                r = s.range()
                zero = FALSE if r == z3.BoolSort() else z3.BitVecVal(0, r.size())
                terms.append(z3.K(s.domain(), zero))
            else:
                raise Unsupported("zero of sort %s" % s)
        v, _ = unflatten(t, terms)
        return v

    def assume(self, st, fact):
        if z3.is_true(fact):
            return
        n0 = len(self.facts)
        self.facts.append(zimp(st.pc, fact))
        if len(self.facts) > n0:
            self.fact_pcs[n0] = st.pc

    def oblige(self, st, kind, label, goal, ln, text="", canary=False):
        if self.spec:
            return
        if z3.is_true(goal):
            return
        c = self.cur_func.contract if self.cur_func is not None else None
        if kind == "safety" and c is not None and "nosafety" in c.flags:
            skip = (c.flags.get("nosafety") or "").split()
            if any(label.startswith(x) for x in skip):
                self.assumptions.add("%s: implicit %s obligations are not generated (wiring of configuration/transport objects is assumed non-nil)" % (
                    self.prog.short(self.cur_func.full), "/".join(skip)))
                self.assume(st, goal)
                return
        name = "%s:%s:%s" % (self.prog.short(self.cur_func.full), kind, label)
        self.obligations.append(Obligation(name, kind, st.pc, goal, len(self.facts), ln, self.cur_func, text, canary))
        # after checking, the fact may be used downstream (standard assert-then-assume)
        self.assume(st, goal)

    def type_facts(self, st, v, t, param=True):
        """Runtime type invariants of a symbolic value: slice header sanity, region ids below FRESH_BASE."""
        u = t.under()
        k = u.k
        if k == "slice" or (k == "basic" and u.d.get("b") == "string"):
            fs = [v.off >= 0, v.ln >= 0, v.ln <= v.cap if k == "slice" else TRUE, v.cap <= idx(MAXLEN) if k == "slice" else v.ln <= idx(MAXLEN),
                  v.off <= idx(MAXLEN)]
            if param:
                fs.append(z3.ULT(v.rid, rid(LIT_BASE)))
            if k == "slice":
                fs.append(z3.Implies(v.rid == rid(0), v.cap == 0))
            else:
                fs.append(z3.Implies(v.rid == rid(0), v.ln == 0))
            self.facts.append(z3.And(*[f for f in fs if not z3.is_true(f)]))
        elif k == "ptr" and param:
            self.facts.append(z3.ULT(v.oid, rid(FRESH_BASE)))
        elif k == "iface":
            if param:
                self.facts.append(z3.And(z3.ULT(v.oid, rid(FRESH_BASE)), z3.Implies(v.tag == rid(0), v.oid == rid(0))))
            else:
                self.facts.append(z3.Implies(v.tag == rid(0), v.oid == rid(0)))
        elif k == "struct":
            for name, ft, _ in t.fields():
                try:
                    self.type_facts(st, v.f[name], ft, param)
                except Unsupported:
                    pass
        elif k == "array" and getattr(v, "items", None) is not None:
            for it in v.items:
                self.type_facts(st, it, v.elem, param)

    def heap_key(self, owner, name):
        if name is None:
            return "*" + owner.s
        return owner.name() + "." + name

    def heap_arr(self, st, key, sort):
        a = st.heap.get(key)
        if a is None:
            a = z3.Array("H_" + key, RS, sort)
            st.heap[key] = a
        return a

    def mem_key(self, elem, i, sort):
        if is_scalar_type(elem):
            # Go's type system keeps slices of different element types apart ([]int64 never shares an array with
            # []uint64); bytes and strings share one space (unsafe.String / []byte(s) conversions)
            u = elem.under()
            if sort_key(sort) == "bv8":
                return "bv8"
            return "%s:%s" % (sort_key(sort), u.d.get("name"))
        return elem.s + "#%d" % i

    def mem_arr(self, st, key, sort):
        a = st.mem.get(key)
        if a is None:
            a = z3.Array("M_" + key, RS, z3.ArraySort(IS, sort))
            st.mem[key] = a
        return a

    # ------------------------------------------------------------ frame checking
    def frame_obj_write(self, st, oid, owner, name):
        fs = self.frame_spec
        if fs is None or self.spec:
            return
        allowed = [z3.UGE(oid, rid(FRESH_BASE))]
        for (o, tn) in fs.get("objs", []):
            if tn == owner.name():
                allowed.append(oid == o)
        self.oblige(st, "frame", "write-%s.%s" % (owner.d.get("short", owner.s), name), zor(*allowed), 0,
                    "write to field %s.%s only through fresh objects or declared modifies" % (owner.s, name))

    def frame_region_write(self, st, r, lo=None):
        fs = self.frame_spec
        if fs is None or self.spec:
            return
        allowed = [z3.UGE(r, rid(FRESH_BASE))]
        for (rr, minoff) in fs.get("regions", []):
            if minoff is None or lo is None:
                allowed.append(r == rr)
            else:
                allowed.append(z3.And(r == rr, lo >= minoff))
        self.oblige(st, "frame", "region-write", zor(*allowed), 0, "memory write only to fresh regions or declared modifies")

    # ------------------------------------------------------------ arrays / slices
    def arr_get(self, a, i):
        if a.term is not None:
            return z3.Select(a.term, i)
        if z3.is_bv_value(i):
            return a.items[i.as_long()]
        r = a.items[a.n - 1]
        for k in range(a.n - 2, -1, -1):
            r = ite_value(i == idx(k), a.items[k], r, a.elem)
        return r

    def arr_set(self, a, i, v):
        if a.term is not None:
            return ArrV(a.n, a.elem, term=z3.Store(a.term, i, v))
        items = list(a.items)
        if z3.is_bv_value(i):
            items[i.as_long()] = v
        else:
            for k in range(a.n):
                items[k] = ite_value(i == idx(k), v, items[k], a.elem)
        return ArrV(a.n, a.elem, items=items)

    def region_arrays(self, st, sl):
        """[(key, sort, array term)] of the region backing slice sl, one per element leaf."""
        out = []
        ls = leaves(sl.elem)
        if sl.snap is not None:
            st = sl.snap
        if sl.lv is not None:
            a = sl.lv.get(self, st)
            if a.term is None:
                raise Unsupported("slice of composite array")
            return [(None, ls[0][1], a.term)]
        for i, (_, s) in enumerate(ls):
            key = self.mem_key(sl.elem, i, s)
            out.append((key, s, z3.Select(self.mem_arr(st, key, s), sl.rid)))
        return out

    def region_store(self, st, sl, arrays, lo=None):
        if sl.lv is not None:
            a = sl.lv.get(self, st)
            sl.lv.set(self, st, ArrV(a.n, a.elem, term=arrays[0]))
            return
        self.frame_region_write(st, sl.rid, lo)
        for i, (_, s) in enumerate(leaves(sl.elem)):
            key = self.mem_key(sl.elem, i, s)
            st.mem[key] = z3.Store(self.mem_arr(st, key, s), sl.rid, arrays[i])

    def slice_get(self, st, sl, i):
        terms = [z3.Select(a, sl.off + i) for (_, _, a) in self.region_arrays(st, sl)]
        v, _ = unflatten(sl.elem, terms)
        if sl.lv is None and not is_scalar_type(sl.elem):
            # ids stored in the PRE-state contents of a region that existed before the call denote things that
            # existed before the call (parallel to the heap fact in HeapLV.get)
            try:
                flags = rid_flags(sl.elem)
            except Unsupported:
                flags = []
            for i_, ((_, s_), isrid) in enumerate(zip(leaves(sl.elem), flags)):
                if isrid:
                    key_ = self.mem_key(sl.elem, i_, s_)
                    a0 = z3.Array("M_" + key_, RS, z3.ArraySort(IS, s_))
                    self.facts.append(z3.Implies(z3.ULT(sl.rid, rid(FRESH_BASE)),
                                                 z3.ULT(z3.Select(z3.Select(a0, sl.rid), sl.off + i), rid(FRESH_BASE))))
        eu = sl.elem.under()
        if eu.k == "slice" or (eu.k == "basic" and eu.d.get("b") == "string"):
            # a slice / string header read from memory is a well-formed header (len <= cap, ...)
            self.type_facts(st, v, sl.elem, param=False)
        return v

    def slice_set(self, st, sl, i, v):
        terms = flatten(v, sl.elem)
        arrs = [z3.Store(a, sl.off + i, t) for (_, _, a), t in zip(self.region_arrays(st, sl), terms)]
        self.region_store(st, sl, arrs, sl.off + i)

    def literal_string(self, st, data, t):
        key = bytes(data)
        ent = self.lit_regions.get(key)
        bt = _byte_type(self.prog)
        if ent is None:
            r = LIT_BASE + len(self.lit_regions) + 1
            ent = r
            self.lit_regions[key] = r
        # contents are (re)installed into this state's memory lazily
        k = "bv8"
        m = self.mem_arr(st, k, z3.BitVecSort(8))
        tag = ("lit", ent)
        if tag not in st.ghost:
            a = z3.K(IS, bv(0, 8))
            if len(key) <= 4096:
                for i, b in enumerate(key):
                    a = z3.Store(a, idx(i), bv(b, 8))
            st.mem[k] = z3.Store(m, rid(ent), a)
            st.ghost[tag] = True
        n = idx(len(key))
        return SliceV(rid(ent), idx(0), n, n, bt, isstr=True)

    def memcpy(self, dst_arr, dlo, n, src_arr, slo):
        """Array equal to dst_arr except [dlo, dlo+n) := src_arr[slo, slo+n). Unrolled when n is a small constant."""
        n = z3.simplify(n)
        if z3.is_bv_value(n) and n.as_long() <= 64:
            a = dst_arr
            for k in range(n.as_long()):
                a = z3.Store(a, dlo + idx(k), z3.Select(src_arr, slo + idx(k)))
            return a
        # bulk copy of symbolic length: a fresh array defined pointwise (instantiated at the indices a goal reads)
        i = z3.BitVec("p", IDX_BITS)
        a = self.fresh("copy", dst_arr.sort())
        self.facts.append(z3.ForAll([i], z3.Select(a, i) == z3.If(z3.And(i >= dlo, i < dlo + n), z3.Select(src_arr, i - dlo + slo),
                                                                  z3.Select(dst_arr, i))))
        return a

    def alloc_slice(self, st, elem, ln, cap, zero=True):
        r = self.fresh_rid()
        sl = SliceV(r, idx(0), ln, cap, elem)
        if zero:
            arrs = []
            for _, s in leaves(elem):
                z = FALSE if s == z3.BoolSort() else (z3.BitVecVal(0, s.size()) if z3.is_bv_sort(s) else None)
                if z is None:
                    raise Unsupported("zeroed region of sort %s" % s)
                arrs.append(z3.K(IS, z))
            saved = self.frame_spec
            self.frame_spec = None
            self.region_store(st, sl, arrs)
            self.frame_spec = saved
        self.count_alloc(st, ln if cap is None else cap, elem)
        return sl

    def count_alloc(self, st, n, elem):
        a = st.ghost.get("alloc")
        if a is None:
            a = z3.BitVecVal(0, 64)
        esz = self.elem_size(elem)
        st.ghost["alloc"] = a + n * idx(esz)

    def elem_size(self, t):
        u = t.under()
        if u.k == "basic":
            b = u.d.get("b")
            if b in ("int", "float"):
                return (u.d.get("bits") or 64) // 8
            if b == "bool":
                return 1
            if b == "string":
                return 16
        if u.k == "slice":
            return 24
        if u.k == "iface":
            return 16
        if u.k == "struct":
            return max(1, sum(self.elem_size(ft) for _, ft, _ in t.fields()))
        if u.k == "array":
            return u.d["len"] * self.elem_size(t.prog.types[u.d["elem"]])
        return 8
