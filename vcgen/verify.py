"""Per-function verification driver: binds symbolic inputs, assumes the precondition, executes the body,
and emits one obligation per postcondition / invariant / implicit safety condition."""
import z3

from .values import *  # noqa
from .gast import Type
from .sym import (TRUE, FALSE, RS, IS, zand, zor, znot, zimp, State, Frame, Executor, Obligation)
from .expr import ExprMixin
from .stmt import StmtMixin
from .calls import CallMixin, ClauseError
from .lib import LibMixin
from .fold import FoldMixin


class Verifier(ExprMixin, StmtMixin, CallMixin, LibMixin, FoldMixin, Executor):
    def __init__(self, prog, cfg=None):
        Executor.__init__(self, prog, cfg)
        self.site_ids = {}
        self.escaped = set()
        self.syn_types = {}
        self.iter_stack = []
        self.pending_heap_havoc = set()
        self.pending_label = None
        self.bounded = set()
        self.summarised = set()
        self.events_seen = set()
        self.arg_types = {}
        self.events_named = set()
        self.in_loop = 0
        self.nomerge = False
        self.acc_reg = {}
        self.acc_mode = 0
        self.alloc_sites = []
        self.unsafe_ptrs = []
        self.models_used = set()
        self.called_contracts = set()
        self.wraps = {}
        self.pre_state = None
        self.int_type = self.find_basic("int")
        self.bool_type = self.find_basic("bool")
        self.input_vals = []

    def find_basic(self, name):
        for t in self.prog.types:
            if t.k == "basic" and t.d.get("name") == name:
                return t
        # synthesize
        d = {"id": len(self.prog.types), "k": "basic", "name": name, "s": name,
             "b": "bool" if name == "bool" else "int", "bits": 64, "signed": True}
        t = Type(d, self.prog)
        self.prog.types.append(t)
        return t

    def ptr_type(self, t):
        for x in self.prog.types:
            if x.k == "ptr" and x.d["elem"] == t.id:
                return x
        d = {"id": len(self.prog.types), "k": "ptr", "elem": t.id, "s": "*" + t.s}
        x = Type(d, self.prog)
        self.prog.types.append(x)
        return x

    def var_type(self, key):
        if isinstance(key, int):
            return self.prog.types[self.prog.objects[key]["t"]]
        if isinstance(key, tuple) and key[0] == "esc":
            return self.ptr_type(self.prog.types[self.prog.objects[key[1]]["t"]])
        return self.syn_types[key]

    # ------------------------------------------------------------ escape analysis (address-taken locals)
    def find_escaped(self, node, out):
        if isinstance(node, list):
            for x in node:
                self.find_escaped(x, out)
            return
        if not isinstance(node, dict):
            return
        if node.get("k") == "UnaryExpr" and node.get("Op") == "&":
            x = node["X"]
            while x.get("k") == "ParenExpr":
                x = x["X"]
            if x.get("k") == "Ident" and "obj" in x:
                o = self.prog.objects[x["obj"]]
                if o["k"] == "var" and not o.get("global"):
                    out.add(x["obj"])
        if node.get("k") == "CallExpr" and node.get("call") == "method":
            # pointer-receiver method on an addressable local value
            fun = node["Fun"]
            if fun.get("k") == "SelectorExpr" and fun.get("sel") and fun["X"].get("k") == "Ident" and "obj" in fun["X"]:
                callee = node.get("callee", "")
                if "(*" in callee and self.T(fun["X"]).under().k != "ptr" and len(fun["sel"]["index"]) == 1:
                    o = self.prog.objects[fun["X"]["obj"]]
                    if o["k"] == "var" and not o.get("global"):
                        out.add(fun["X"]["obj"])
        for k, v in node.items():
            if isinstance(v, (dict, list)) and k not in ("sel", "cv"):
                self.find_escaped(v, out)

    def escaped_ptr(self, obj, st):
        return st.vars[("esc", obj)]

    def ev_Ident(self, e, st):
        if "obj" in e and e["obj"] in self.escaped and ("esc", e["obj"]) in st.vars:
            p = st.vars[("esc", e["obj"])]
            return self.deref_lv(p, self.T(e)).get(self, st)
        return ExprMixin.ev_Ident(self, e, st)

    def lvalue(self, e, st):
        if e["k"] == "Ident" and "obj" in e and e["obj"] in self.escaped and ("esc", e["obj"]) in st.vars:
            p = st.vars[("esc", e["obj"])]
            return self.deref_lv(p, self.T(e))
        return ExprMixin.lvalue(self, e, st)

    # ------------------------------------------------------------ entry point
    def verify(self, func):
        self.cur_func = func
        node = func.node
        c = func.contract
        if c is not None and c.error:
            raise Unsupported(c.error)
        self.find_escaped(node.get("Body"), self.escaped)
        self.nomerge = c is not None and "paths" in c.flags
        self.nomerge_mode = (c.flags.get("paths") or "split").strip() if self.nomerge else "split"
        st = State()
        inputs = []
        if node.get("Recv") and node["Recv"].get("List"):
            rd = node["Recv"]["List"][0]
            rt = self.T(rd["Type"])
            names = rd.get("Names") or []
            v = self.fresh_value(rt, names[0]["Name"] if names else "recv")
            self.type_facts(st, v, rt)
            if names and names[0]["Name"] != "_":
                self.bind_param(st, names[0]["obj"], v, rt)
            inputs.append((names[0]["Name"] if names else "recv", v, rt))
        for fld in node["Type"]["Params"].get("List") or []:
            ft = self.T(fld["Type"])
            if fld["Type"].get("k") == "Ellipsis":
                ft = self.slice_of(self.T(fld["Type"]["Elt"]), fld)
            for nm in fld.get("Names") or []:
                t = self.T(nm) if "t" in nm else ft
                v = self.fresh_value(t, nm["Name"])
                self.type_facts(st, v, t)
                if nm["Name"] != "_":
                    self.bind_param(st, nm["obj"], v, t)
                inputs.append((nm["Name"], v, t))
        self.input_vals = inputs
        if c is not None:
            for cl in c.of("requires"):
                self.assume(st, self.eval_clause(cl, st, results=None, old=st))
        if c is not None:
            for cl in c.of("trusts"):
                self.assumptions.add("trusted (unproved) postcondition of %s: %s" % (self.prog.short(func.full), cl["text"]))
        self.pre_state = st.fork()
        self.n_pre_facts = len(self.facts)
        # frame specification
        self.frame_spec = None
        if c is not None and (c.clauses or c.flags) and "noframe" not in c.flags:
            self.frame_spec = self.build_frame_spec(func, st)
        fr = Frame(func)
        sig = self.prog.types[node["sig"]].under().d
        fr.result_types = [self.prog.types[r["t"]] for r in sig.get("results") or []]
        fr.named_results = []
        for fld in (node["Type"].get("Results") or {}).get("List") or []:
            for nm in fld.get("Names") or []:
                if nm["Name"] != "_":
                    fr.named_results.append(nm["obj"])
                    st.vars[nm["obj"]] = self.zero_value(self.T(nm))
        if len(fr.named_results) != len(fr.result_types):
            fr.named_results = []
        self.frames.append(fr)
        out = self.ex_block(node["Body"]["List"], st)
        self.frames.pop()
        rets = list(fr.rets)
        for o_ in (out if isinstance(out, list) else [out]):
            if o_ is not None:
                if fr.result_types and not fr.named_results:
                    raise Unsupported("function falls off the end")
                rets.append((o_, [o_.vars[o] for o in fr.named_results]))
        if not rets:
            return self.obligations
        self.rets_for_events = rets
        if getattr(self, "footprint_only", False):
            return self.obligations
        split = c is not None and "paths" in c.flags and not fr.defers
        if split and c.of("cover"):
            raise Unsupported("cover clauses in a path-split function")
        if split:
            self.frame_spec = None
            unbound = set()
            for (s_, v_) in rets:
                self.final_state, self.final_results = s_, v_
                self.check_emits(func, s_)
                for cl in c.of("ensures"):
                    n0 = len(self.facts)
                    try:
                        g = self.eval_clause(cl, s_, results=v_, old=self.pre_state)
                    except ClauseError as ex:
                        self.facts.cut(n0)
                        if cl["label"] not in unbound:
                            unbound.add(cl["label"])
                            self.obligations.append(Obligation("%s:ensures:%s" % (self.prog.short(func.full), cl["label"]), "ensures",
                                                               TRUE, FALSE, len(self.facts), cl.get("ln"), func, str(ex), cl.get("canary")))
                        continue
                    extra = self.facts.cut(n0)
                    for k_ in [k_ for k_ in self.fact_pcs if k_ >= n0]:
                        del self.fact_pcs[k_]
                    self.fp_defs = set(i_ for i_ in self.fp_defs if i_ < n0)
                    self.oblige_final(s_, "ensures", cl["label"], g, cl.get("ln"), cl["text"], cl.get("canary"))
                    self.obligations[-1].extra = extra
            return self.obligations
        merged, vals = None, None
        for (s_, v_) in rets:
            if merged is None:
                merged, vals = s_, v_
            else:
                cnd = merged.pc
                vals = [ite_value(cnd, a, b, t) for a, b, t in zip(vals, v_, fr.result_types)]
                merged = self.merge(merged, s_)
        self.frame_spec = None
        merged = self.run_defers(fr, merged, vals)
        if fr.named_results:
            vals = [merged.vars[o] for o in fr.named_results]
        self.final_state = merged
        self.final_results = vals
        self.check_emits(func, merged)
        if c is not None:
            for cl in c.of("ensures"):
                n0 = len(self.facts)
                try:
                    g = self.eval_clause(cl, merged, results=vals, old=self.pre_state)
                except ClauseError as ex:
                    self.facts.cut(n0)
                    self.obligations.append(Obligation("%s:ensures:%s" % (self.prog.short(func.full), cl["label"]), "ensures",
                                                       TRUE, FALSE, len(self.facts), cl.get("ln"), func, str(ex), cl.get("canary")))
                    continue
                extra = self.facts.cut(n0)
                for k_ in [k_ for k_ in self.fact_pcs if k_ >= n0]:
                    del self.fact_pcs[k_]
                self.fp_defs = set(i_ for i_ in self.fp_defs if i_ < n0)
                self.oblige_final(merged, "ensures", cl["label"], g, cl.get("ln"), cl["text"], cl.get("canary"))
                self.obligations[-1].extra = extra
            for cl in c.of("cover"):
                # reachability: some execution that satisfies the precondition returns with the condition true
                n0 = len(self.facts)
                g = self.eval_clause(cl, merged, results=vals, old=self.pre_state)
                extra = self.facts.cut(n0)
                self.oblige_final(merged, "cover", cl["label"], z3.Not(g), cl.get("ln"), cl["text"])
                self.obligations[-1].extra = extra
        return self.obligations

    def tracked_events(self):
        """Operations that some contract of the loaded packages declares in an `emits` list: these are the ones whose
        every occurrence must be declared (logging, clock reads etc. are not tracked)."""
        t = getattr(self.prog, "_tracked", None)
        if t is None:
            t = set()
            import re as _re
            for pkg in self.prog.packages.values():
                for c in pkg.contracts.values():
                    txt = (c.flags.get("emits") or "")
                    t |= set(x.strip() for x in txt.split(",") if x.strip())
                    # operations that some clause counts, orders or reads are tracked too: a callee that performs one
                    # must declare it, or its callers would count wrongly
                    for cl in c.clauses:
                        t |= set(_re.findall(r'zz(?:Calls|Seq|Arg|Ret|Recv)(?:\[[^\]]*\])?\("([^"]+)"', cl.get("text") or ""))
            t = set(x for x in t if not x.startswith("select.arm:"))
            self.prog._tracked = t
        return t

    def check_emits(self, func, st):
        """(Retired.) Callers no longer rely on a declared `emits` list: the operations a callee may perform are
        inferred from its body (calls.footprint), so a harmless edit that adds an operation cannot raise an alarm."""
        return
        c = func.contract
        if c is None or not (c.clauses or c.flags):
            return
        allowed = set(self.contract_emits(func))
        for key, val in sorted(st.ghost.items(), key=lambda kv: str(kv[0])):
            if isinstance(key, str) and key.startswith("ev:") and key[3:] not in allowed and z3.is_expr(val):
                if key[3:] in self.tracked_events() and not key.startswith("ev:select.arm:"):
                    self.oblige_final(st, "emits", "only-declared:" + key[3:], val == z3.BitVecVal(0, 64), 0,
                                      "operation %s is performed but not declared in `emits`" % key[3:])

    def oblige_final(self, st, kind, label, goal, ln, text, canary=False):
        name = "%s:%s:%s" % (self.prog.short(self.cur_func.full), kind, label)
        self.obligations.append(Obligation(name, kind, st.pc, goal, len(self.facts), ln, self.cur_func, text, bool(canary)))

    def bind_param(self, st, obj, v, t):
        if obj in self.escaped:
            p = self.new_object(st, v, t)
            st.vars[("esc", obj)] = p
        else:
            st.vars[obj] = v

    def slice_of(self, et, node):
        for x in self.prog.types:
            if x.k == "slice" and x.d["elem"] == et.id:
                return x
        d = {"id": len(self.prog.types), "k": "slice", "elem": et.id, "s": "[]" + et.s}
        x = Type(d, self.prog)
        self.prog.types.append(x)
        return x

    def build_frame_spec(self, func, st):
        fs = {"regions": [], "objs": [], "fields": []}
        for m in self.parse_modifies(func):
            if m["kind"] == "param-region":
                names = self.param_names(func)
                nm = [k for k, v in names.items() if v == m["index"]][0]
                v = st.vars.get(self.param_obj(func, nm))
                if isinstance(v, SliceV) and v.rid is not None:
                    fs["regions"].append((v.rid, None))
                elif isinstance(v, PtrV):
                    fs["fields"].append((v.oid, v.elem.name(), None))
            elif m["kind"] == "field":
                via = m.get("via")
                names = self.param_names(func)
                if via in names:
                    pv = st.vars.get(self.param_obj(func, via))
                    if isinstance(pv, PtrV):
                        fs["fields"].append((pv.oid, m["type"], m["field"]))
                        # a slice-typed field that may be modified may also be appended to in place:
                        # its array may be written beyond the field's current length
                        try:
                            ft = [x for x in pv.elem.fields() if x[0] == m["field"]][0][1]
                            if ft.under().k == "slice":
                                from .sym import HeapLV
                                cur = HeapLV(pv.oid, pv.elem, m["field"], ft).get(self, st)
                                fs["regions"].append((cur.rid, None if m.get("contents") else cur.off + cur.ln))
                        except (Unsupported, IndexError):
                            pass
                else:
                    fs["fields"].append((None, m["type"], m["field"]))
        return fs

    def frame_obj_write(self, st, oid, owner, name):
        fs = self.frame_spec
        if fs is None or self.spec:
            return
        allowed = [z3.UGE(oid, rid(FRESH_BASE))]
        for (o, tn, fn) in fs.get("fields", []):
            if tn == owner.name() and (fn == name or fn == "*"):
                allowed.append(TRUE if o is None else oid == o)
        g = z3.simplify(zor(*allowed))
        self.oblige(st, "frame", "write-%s.%s" % (owner.d.get("short", owner.s), name), g, 0,
                    "field %s.%s is written only on fresh objects or where `modifies` allows" % (owner.s, name))


def pc_literals(pc, out=None):
    """Branch literals of a path condition: {ast id: polarity} over its top-level conjunction."""
    out = {} if out is None else out
    stack = [pc]
    while stack:
        x = stack.pop()
        if z3.is_and(x):
            stack.extend(x.children())
        elif z3.is_not(x):
            out[x.arg(0).get_id()] = False
        elif not z3.is_true(x):
            out[x.get_id()] = True
    return out


def build_vc(ex, ob):
    """Hypotheses of an obligation: every fact assumed before it, except facts assumed on a path that the
    obligation's own path condition contradicts literally (dropping hypotheses is always sound)."""
    mine = pc_literals(ob.pc)
    hyps = []
    cache = {}
    # IEEE definitions of FP result symbols matter only to goals that reason about FP values (comparisons,
    # classification); equalities between results follow from congruence alone
    txt = ob.goal.sexpr() + ob.pc.sexpr() if ex.fp_defs else ""
    want_fp = "fp." in txt or "to_fp" in txt
    for i, f in enumerate(ex.facts[:ob.nfacts]):
        if z3.is_true(f):
            continue
        if i in ex.fp_defs and not want_fp:
            continue
        fpc = ex.fact_pcs.get(i)
        if fpc is not None and mine:
            k = fpc.get_id()
            conflict = cache.get(k)
            if conflict is None:
                theirs = pc_literals(fpc)
                conflict = any(mine.get(a) is (not pol) for a, pol in theirs.items())
                cache[k] = conflict
            if conflict:
                continue
        hyps.append(f)
    hyps.extend(getattr(ob, "extra", None) or [])
    return hyps, ob.pc, ob.goal
