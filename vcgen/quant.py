"""Quantifier handling (DESIGN.md 3.3.5): Skolemise universally quantified goals, ground-instantiate universally
quantified hypotheses at the Skolem constants (and a few extra index terms).  The quantifier-free query only
weakens hypotheses, so `unsat` on it is a sound discharge; the full query (quantified hypotheses kept) is the
fallback when the ground query is not enough."""
import itertools

import z3

_n = [0]


def _fresh(name, sort):
    _n[0] += 1
    return z3.Const("sk_%s!%d" % (name, _n[0]), sort)


def skolemize(goal, sks):
    """Replace positive universal quantifiers of the goal by fresh constants (collected into sks)."""
    if z3.is_quantifier(goal):
        if goal.is_forall():
            n = goal.num_vars()
            cs = [_fresh(goal.var_name(i), goal.var_sort(i)) for i in range(n)]
            sks.extend(cs)
            # de Bruijn: Var(0) is the LAST bound variable
            body = z3.substitute_vars(goal.body(), *reversed(cs))
            return skolemize(body, sks)
        return goal
    if z3.is_and(goal):
        return z3.And(*[skolemize(c, sks) for c in goal.children()])
    if z3.is_implies(goal):
        return z3.Implies(goal.arg(0), skolemize(goal.arg(1), sks))
    if z3.is_app(goal) and goal.decl().kind() == z3.Z3_OP_ITE and z3.is_bool(goal):
        return z3.If(goal.arg(0), skolemize(goal.arg(1), sks), skolemize(goal.arg(2), sks))
    return goal


def has_quant(e, cache=None):
    cache = {} if cache is None else cache
    stack = [e]
    seen = set()
    while stack:
        x = stack.pop()
        i = x.get_id()
        if i in seen:
            continue
        seen.add(i)
        if z3.is_quantifier(x):
            return True
        if z3.is_app(x):
            stack.extend(x.children())
    return False


def ground(h, terms_by_sort, cap=96):
    """A quantifier-free formula implied by hypothesis h: positive universals are replaced by the conjunction of
    their instances at the given terms; any other quantified sub-formula in positive position becomes True."""
    if not has_quant(h):
        return h
    if z3.is_quantifier(h):
        if not h.is_forall():
            return z3.BoolVal(True)
        n = h.num_vars()
        pools = []
        for i in range(n):
            pool = terms_by_sort.get(h.var_sort(i).sexpr(), [])
            if not pool:
                return z3.BoolVal(True)
            pools.append(pool)
        insts = []
        for tup in itertools.islice(itertools.product(*pools), cap):
            body = z3.substitute_vars(h.body(), *reversed(tup))
            insts.append(ground(body, terms_by_sort, cap))
        return z3.And(*insts) if insts else z3.BoolVal(True)
    if z3.is_and(h):
        return z3.And(*[ground(c, terms_by_sort, cap) for c in h.children()])
    if z3.is_or(h):
        return z3.Or(*[ground(c, terms_by_sort, cap) for c in h.children()])
    if z3.is_implies(h):
        if has_quant(h.arg(0)):
            return z3.BoolVal(True)
        return z3.Implies(h.arg(0), ground(h.arg(1), terms_by_sort, cap))
    if z3.is_app(h) and h.decl().kind() == z3.Z3_OP_ITE and z3.is_bool(h):
        if has_quant(h.arg(0)):
            return z3.BoolVal(True)
        return z3.If(h.arg(0), ground(h.arg(1), terms_by_sort, cap), ground(h.arg(2), terms_by_sort, cap))
    return z3.BoolVal(True)


def prepare(hyps, pc, goal, extra_terms=()):
    """Returns (qf_assertions or None, full_assertions). Each is a list whose conjunction must be unsat."""
    sks = []
    g = skolemize(goal, sks)
    full = list(hyps) + [pc, z3.Not(g)]
    if not any(has_quant(h) for h in hyps) and not has_quant(pc):
        if has_quant(g):
            return None, full
        return full, None
    by_sort = {}
    for t in list(sks) + list(extra_terms):
        by_sort.setdefault(t.sort().sexpr(), []).append(t)
    for s, pool in by_sort.items():
        if s.startswith("(_ BitVec"):
            w = pool[0].sort().size()
            pool.append(z3.BitVecVal(0, w))
    qf = [ground(h, by_sort) for h in hyps] + [ground(pc, by_sort)]
    if has_quant(g):
        return None, full
    qf.append(z3.Not(g))
    return qf, full
