"""Quantifier handling (DESIGN.md 3.3.5): Skolemise universally quantified goals, ground-instantiate universally
quantified hypotheses at the Skolem constants (and a few extra index terms).  The quantifier-free query only
weakens hypotheses, so `unsat` on it is a sound discharge; the full query (quantified hypotheses kept) is the
fallback when the ground query is not enough."""
import itertools

import z3

_n = [0]


def _fresh(name, sort):
    _n[0] += 1
    return z3.Const("sk_%s!%d" % (name, _n[0]), sort)


def skolemize(goal, sks):
    """Replace positive universal quantifiers of the goal by fresh constants (collected into sks)."""
    if z3.is_quantifier(goal) and not goal.is_lambda():
        if goal.is_forall():
            n = goal.num_vars()
            cs = [_fresh(goal.var_name(i), goal.var_sort(i)) for i in range(n)]
            sks.extend(cs)
            # de Bruijn: Var(0) is the LAST bound variable
            body = z3.substitute_vars(goal.body(), *reversed(cs))
            return skolemize(body, sks)
        return goal
    if z3.is_and(goal):
        return z3.And(*[skolemize(c, sks) for c in goal.children()])
    if z3.is_implies(goal):
        return z3.Implies(goal.arg(0), skolemize(goal.arg(1), sks))
    if z3.is_app(goal) and goal.decl().kind() == z3.Z3_OP_ITE and z3.is_bool(goal):
        return z3.If(goal.arg(0), skolemize(goal.arg(1), sks), skolemize(goal.arg(2), sks))
    return goal


def has_quant(e, cache=None):
    cache = {} if cache is None else cache
    stack = [e]
    seen = set()
    while stack:
        x = stack.pop()
        i = x.get_id()
        if i in seen:
            continue
        seen.add(i)
        if z3.is_quantifier(x):
            if x.is_lambda():
                stack.append(x.body())  # bulk-copy lambdas are array terms, not logical quantifiers
                continue
            return True
        if z3.is_app(x):
            stack.extend(x.children())
    return False


def ground(h, terms_by_sort, cap=96):
    """A quantifier-free formula implied by hypothesis h: positive universals are replaced by the conjunction of
    their instances at the given terms; any other quantified sub-formula in positive position becomes True."""
    if not has_quant(h):
        return h
    if z3.is_quantifier(h):
        if h.is_lambda():
            return h
        if not h.is_forall():
            return z3.BoolVal(True)
        n = h.num_vars()
        pools = []
        for i in range(n):
            pool = terms_by_sort.get(h.var_sort(i).sexpr(), [])
            if not pool:
                return z3.BoolVal(True)
            pools.append(pool)
        insts = []
        for tup in itertools.islice(itertools.product(*pools), cap):
            body = z3.substitute_vars(h.body(), *reversed(tup))
            insts.append(ground(body, terms_by_sort, cap))
        return z3.And(*insts) if insts else z3.BoolVal(True)
    if z3.is_and(h):
        return z3.And(*[ground(c, terms_by_sort, cap) for c in h.children()])
    if z3.is_or(h):
        return z3.Or(*[ground(c, terms_by_sort, cap) for c in h.children()])
    if z3.is_implies(h):
        if has_quant(h.arg(0)):
            return z3.BoolVal(True)
        return z3.Implies(h.arg(0), ground(h.arg(1), terms_by_sort, cap))
    if z3.is_app(h) and h.decl().kind() == z3.Z3_OP_ITE and z3.is_bool(h):
        if has_quant(h.arg(0)):
            return z3.BoolVal(True)
        return z3.If(h.arg(0), ground(h.arg(1), terms_by_sort, cap), ground(h.arg(2), terms_by_sort, cap))
    return z3.BoolVal(True)


def index_terms(formulas, limit=400):
    """Ground 64-bit index terms t occurring as select(_, t) in the given formulas (outside quantifiers)."""
    out, seen, ids = [], set(), set()
    stack = list(formulas)
    while stack and len(out) < limit:
        x = stack.pop()
        i = x.get_id()
        if i in seen:
            continue
        seen.add(i)
        if z3.is_quantifier(x):
            if x.is_lambda():
                pass
            continue
        if z3.is_app(x):
            if x.decl().kind() == z3.Z3_OP_SELECT and x.num_args() == 2:
                t = x.arg(1)
                if z3.is_bv(t) and t.get_id() not in ids:
                    ids.add(t.get_id())
                    out.append(t)
            stack.extend(x.children())
    return out


def _has_var(e, cache):
    i = e.get_id()
    if i in cache:
        return cache[i]
    r = False
    if z3.is_var(e):
        r = True
    elif z3.is_app(e):
        r = any(_has_var(c, cache) for c in e.children())
    elif z3.is_quantifier(e):
        r = True
    cache[i] = r
    return r


def select_offsets(body):
    """For a one-variable quantifier body: the ground offsets c of index patterns `c + Var(0)` (or Var(0)) under select."""
    offs, seen, cache = [], set(), {}
    stack = [body]
    while stack:
        x = stack.pop()
        i = x.get_id()
        if i in seen:
            continue
        seen.add(i)
        if z3.is_quantifier(x):
            continue
        if z3.is_app(x):
            if x.decl().kind() == z3.Z3_OP_SELECT and x.num_args() == 2:
                t = x.arg(1)
                if z3.is_var(t):
                    offs.append(None)
                elif z3.is_app(t) and t.decl().kind() == z3.Z3_OP_BADD:
                    vs = [c for c in t.children() if z3.is_var(c)]
                    rest = [c for c in t.children() if not z3.is_var(c)]
                    if len(vs) == 1 and not any(_has_var(c, cache) for c in rest):
                        c0 = rest[0]
                        for r in rest[1:]:
                            c0 = c0 + r
                        offs.append(c0)
            stack.extend(x.children())
    # dedupe
    out, ids = [], set()
    for o in offs:
        k = None if o is None else o.get_id()
        if k not in ids:
            ids.add(k)
            out.append(o)
    return out


def ematch_instances(h, idx_terms, cap=24):
    """Extra instances of a one-variable universal hypothesis: x := t - c for every ground select index t."""
    if not (z3.is_quantifier(h) and h.is_forall() and h.num_vars() == 1 and z3.is_bv_sort(h.var_sort(0))):
        return []
    w = h.var_sort(0).size()
    offs = select_offsets(h.body())
    out = []
    seen = set()
    for t in idx_terms:
        if t.sort().size() != w:
            continue
        for c in offs:
            x = t if c is None else z3.simplify(t - c)
            if x.get_id() in seen:
                continue
            seen.add(x.get_id())
            out.append(x)
            if len(out) >= cap:
                return out
    return out


def prepare(hyps, pc, goal, extra_terms=()):
    """Returns (qf_assertions or None, full_assertions). Each is a list whose conjunction must be unsat."""
    sks = []
    g = skolemize(goal, sks)
    full = list(hyps) + [pc, z3.Not(g)]
    if not any(has_quant(h) for h in hyps) and not has_quant(pc):
        if has_quant(g):
            return None, full
        return full, None
    by_sort = {}
    for t in list(sks) + list(extra_terms):
        by_sort.setdefault(t.sort().sexpr(), []).append(t)
    for s, pool in by_sort.items():
        if s.startswith("(_ BitVec"):
            w = pool[0].sort().size()
            pool.append(z3.BitVecVal(0, w))
    if has_quant(g):
        return None, full
    qf = [ground(h, by_sort) for h in hyps]
    tail = [ground(pc, by_sort), z3.Not(g)]
    # E-matching on array reads for one-variable universals (two rounds: instances expose new reads)
    quants = []
    for h in hyps:
        collect_universals(h, z3.BoolVal(True), quants)
    if quants:
        done = {}
        for _ in range(1):
            its = index_terms([g, pc], limit=24)
            qf_probe = qf
            added = False
            for gi, (guard, q) in enumerate(quants):
                for x in ematch_instances(q, its):
                    key = (gi, x.get_id())
                    if key in done:
                        continue
                    done[key] = True
                    inst = z3.substitute_vars(q.body(), x)
                    inst = ground(inst, by_sort)
                    qf.append(inst if z3.is_true(guard) else z3.Implies(guard, inst))
                    added = True
            if not added:
                break
    return qf + tail, full


def collect_universals(h, guard, out):
    """(guard, forall) pairs for positive one-variable universals of hypothesis h (guards are quantifier-free)."""
    if not has_quant(h):
        return
    if z3.is_quantifier(h):
        if h.is_forall() and not h.is_lambda() and h.num_vars() == 1:
            out.append((guard, h))
        return
    if z3.is_and(h):
        for c in h.children():
            collect_universals(c, guard, out)
        return
    if z3.is_implies(h) and not has_quant(h.arg(0)):
        g2 = h.arg(0) if z3.is_true(guard) else z3.And(guard, h.arg(0))
        collect_universals(h.arg(1), g2, out)
        return
