"""Symbolic value representation for the govc executor (DESIGN.md section 3.2).

Integers are bit-vectors of their exact width; memory is a map region-id -> (index -> element);
pointers are object ids into per-(type, field) heaps (Burstall model)."""
import z3

RID_BITS = 32
IDX_BITS = 64
LIT_BASE = 0x20000000
FRESH_BASE = 0x40000000
ABSTRACT_BASE = 0x60000000   # ids of objects allocated inside abstracted code (loop iterations, callees)
MAXLEN = 1 << 47


class Unsupported(Exception):
    pass


def bv(v, bits):
    return z3.BitVecVal(v, bits)


def idx(v):
    return z3.BitVecVal(v, IDX_BITS) if isinstance(v, int) else v


def rid(v):
    return z3.BitVecVal(v, RID_BITS) if isinstance(v, int) else v


class SliceV:
    """A slice or string: window [off, off+ln) of region rid; cap counts from off."""
    __slots__ = ("rid", "off", "ln", "cap", "elem", "lv", "isstr", "snap")

    def __init__(self, rid_, off, ln, cap, elem, lv=None, isstr=False, snap=None):
        self.snap = snap  # State whose memory this value reads (set by old(...)); None = current state
        self.rid = rid_
        self.off = off
        self.ln = ln
        self.cap = cap
        self.elem = elem  # Type of element
        self.lv = lv      # LValue of a backing fixed array (then rid is None)
        self.isstr = isstr

    def __repr__(self):
        return "SliceV(%s,%s,%s)" % (self.rid, self.off, self.ln)


class ArrV:
    """Fixed array [n]T. Scalar elements: one SMT array term; otherwise a python list."""
    __slots__ = ("term", "items", "n", "elem")

    def __init__(self, n, elem, term=None, items=None):
        self.n = n
        self.elem = elem
        self.term = term
        self.items = items


class StructV:
    __slots__ = ("typ", "f")

    def __init__(self, typ, f):
        self.typ = typ
        self.f = f  # dict name -> value

    def copy(self):
        return StructV(self.typ, dict(self.f))


class PtrV:
    """Pointer = object id. root=(RootStructType, (field, ...)) marks an interior pointer to an embedded/nested
    struct field of the object oid (its cells live in the root type's heaps)."""
    __slots__ = ("oid", "elem", "root")

    def __init__(self, oid, elem, root=None):
        self.oid = oid
        self.elem = elem
        self.root = root


class IfaceV:
    __slots__ = ("tag", "oid")

    def __init__(self, tag, oid):
        self.tag = tag
        self.oid = oid


class FuncV:
    __slots__ = ("kind", "key", "node", "env", "recv", "term")

    def __init__(self, kind, key=None, node=None, env=None, recv=None, term=None):
        self.kind = kind  # 'static' | 'lit' | 'bound' | 'opaque'
        self.key = key
        self.node = node
        self.env = env
        self.recv = recv
        self.term = term


class OpaqueV:
    """chan / map / unsafe.Pointer / other handle."""
    __slots__ = ("term", "typ")

    def __init__(self, term, typ):
        self.term = term
        self.typ = typ


class TupleV:
    __slots__ = ("items",)

    def __init__(self, items):
        self.items = items


def is_scalar_type(t):
    u = t.under()
    return u.k == "basic" and u.d.get("b") in ("int", "bool", "float")


def scalar_sort(t):
    u = t.under()
    b = u.d.get("b")
    if b == "bool":
        return z3.BoolSort()
    if b in ("int", "float"):
        return z3.BitVecSort(u.d.get("bits") or 64)
    raise Unsupported("scalar_sort of %r" % t)


def sort_key(s):
    if s == z3.BoolSort():
        return "bool"
    if z3.is_bv_sort(s):
        return "bv%d" % s.size()
    return str(s)


def leaves(t, _depth=0):
    """List of (path, sort) for the flat representation of a value of Go type t."""
    u = t.under()
    k = u.k
    if k == "basic":
        b = u.d.get("b")
        if b == "string":
            return [(("rid",), z3.BitVecSort(RID_BITS)), (("off",), z3.BitVecSort(IDX_BITS)), (("len",), z3.BitVecSort(IDX_BITS))]
        if b in ("int", "bool", "float"):
            return [((), scalar_sort(u))]
        if u.d.get("name") == "unsafe.Pointer" or b == "other":
            return [((), z3.BitVecSort(RID_BITS))]
        raise Unsupported("leaves of basic %r" % t)
    if k == "slice":
        return [(("rid",), z3.BitVecSort(RID_BITS)), (("off",), z3.BitVecSort(IDX_BITS)),
                (("len",), z3.BitVecSort(IDX_BITS)), (("cap",), z3.BitVecSort(IDX_BITS))]
    if k == "ptr":
        return [((), z3.BitVecSort(RID_BITS))]
    if k == "iface":
        return [(("tag",), z3.BitVecSort(RID_BITS)), (("oid",), z3.BitVecSort(RID_BITS))]
    if k in ("chan", "map", "sig", "typeparam", "other"):
        return [((), z3.BitVecSort(RID_BITS))]
    if k == "array":
        et = t.prog.types[u.d["elem"]]
        n = u.d["len"]
        if is_scalar_type(et):
            return [((), z3.ArraySort(z3.BitVecSort(IDX_BITS), scalar_sort(et)))]
        out = []
        if n > 64:
            raise Unsupported("array of %d composite elements" % n)
        for i in range(n):
            for p, s in leaves(et, _depth + 1):
                out.append(((i,) + p, s))
        return out
    if k == "struct":
        if _depth > 8:
            raise Unsupported("struct nesting too deep")
        out = []
        for name, ft, _ in t.fields():
            for p, s in leaves(ft, _depth + 1):
                out.append(((name,) + p, s))
        return out
    raise Unsupported("leaves of %r (%s)" % (t, k))


def rid_flags(t, _depth=0):
    """Parallel to leaves(t): True for leaves that hold a region / object id (not a 32-bit integer)."""
    u = t.under()
    k = u.k
    if k == "basic":
        b = u.d.get("b")
        if b == "string":
            return [True, False, False]
        if b in ("int", "bool", "float"):
            return [False]
        return [True]
    if k == "slice":
        return [True, False, False, False]
    if k == "ptr":
        return [True]
    if k == "iface":
        return [False, True]
    if k in ("chan", "map", "sig", "typeparam", "other"):
        return [True]
    if k == "array":
        et = t.prog.types[u.d["elem"]]
        if is_scalar_type(et):
            return [False]
        out = []
        for i in range(u.d["len"]):
            out.extend(rid_flags(et, _depth + 1))
        return out
    if k == "struct":
        out = []
        for name, ft, _ in t.fields():
            out.extend(rid_flags(ft, _depth + 1))
        return out
    raise Unsupported("rid_flags of %r" % t)


def flatten(v, t):
    u = t.under()
    k = u.k
    if k == "basic":
        if u.d.get("b") == "string":
            return [v.rid, v.off, v.ln]
        if isinstance(v, OpaqueV):
            return [v.term]
        return [v]
    if k == "slice":
        if v.lv is not None:
            raise Unsupported("array-backed slice escapes into merged/stored state")
        return [v.rid, v.off, v.ln, v.cap]
    if k == "ptr":
        if getattr(v, "root", None) is not None:
            raise Unsupported("interior pointer stored / merged")
        return [v.oid]
    if k == "iface":
        return [v.tag, v.oid]
    if k in ("chan", "map", "typeparam", "other"):
        return [v.term]
    if k == "sig":
        if isinstance(v, FuncV):
            if v.term is None:
                # a literal / static / bound function stored into the heap or merged: only its non-nil-ness is
                # observable afterwards (Go function values compare only with nil), so any non-zero handle will do;
                # calling it later is an abstracted operation
                import zlib
                ident = v.key or ("lit@%s" % (id(v.node) if v.node is not None else 0))
                return [z3.BitVecVal(0x7F000000 | (zlib.crc32(str(ident).encode()) & 0xFFFFFF), RID_BITS)]
            return [v.term]
        return [v.term]
    if k == "array":
        et = t.prog.types[u.d["elem"]]
        if is_scalar_type(et):
            return [v.term]
        out = []
        for it in v.items:
            out.extend(flatten(it, et))
        return out
    if k == "struct":
        out = []
        for name, ft, _ in t.fields():
            out.extend(flatten(v.f[name], ft))
        return out
    raise Unsupported("flatten %r" % t)


def unflatten(t, terms, pos=0):
    """Returns (value, newpos)."""
    u = t.under()
    k = u.k
    if k == "basic":
        if u.d.get("b") == "string":
            return SliceV(terms[pos], terms[pos + 1], terms[pos + 2], terms[pos + 2], _byte_type(t.prog), isstr=True), pos + 3
        if u.d.get("b") in ("int", "bool", "float"):
            return terms[pos], pos + 1
        return OpaqueV(terms[pos], t), pos + 1
    if k == "slice":
        return SliceV(terms[pos], terms[pos + 1], terms[pos + 2], terms[pos + 3], t.elem()), pos + 4
    if k == "ptr":
        return PtrV(terms[pos], t.elem()), pos + 1
    if k == "iface":
        return IfaceV(terms[pos], terms[pos + 1]), pos + 2
    if k in ("chan", "map", "typeparam", "other"):
        return OpaqueV(terms[pos], t), pos + 1
    if k == "sig":
        return FuncV("opaque", term=terms[pos]), pos + 1
    if k == "array":
        et = t.prog.types[u.d["elem"]]
        n = u.d["len"]
        if is_scalar_type(et):
            return ArrV(n, et, term=terms[pos]), pos + 1
        items = []
        for _ in range(n):
            it, pos = unflatten(et, terms, pos)
            items.append(it)
        return ArrV(n, et, items=items), pos
    if k == "struct":
        f = {}
        for name, ft, _ in t.fields():
            f[name], pos = unflatten(ft, terms, pos)
        return StructV(t, f), pos
    raise Unsupported("unflatten %r" % t)


_BYTE = {}


def _byte_type(prog):
    bt = _BYTE.get(id(prog))
    if bt is None:
        for t in prog.types:
            if t.k == "basic" and t.d.get("name") in ("uint8", "byte"):
                bt = t
                break
        _BYTE[id(prog)] = bt
    return bt


def ite_value(c, a, b, t):
    if a is b:
        return a
    if isinstance(a, FuncV) and isinstance(b, FuncV) and a.term is None and b.term is None:
        if a.kind == b.kind and a.key == b.key and a.node is b.node:
            return a
    if isinstance(a, SliceV) and isinstance(b, SliceV) and a.lv is not None and a.lv is b.lv:
        return SliceV(None, z3.If(c, a.off, b.off), z3.If(c, a.ln, b.ln), z3.If(c, a.cap, b.cap), a.elem, lv=a.lv)
    fa = flatten(a, t)
    fb = flatten(b, t)
    out = []
    for x, y in zip(fa, fb):
        if x is y or (z3.is_expr(x) and z3.is_expr(y) and x.eq(y)):
            out.append(x)
        else:
            out.append(z3.If(c, x, y))
    v, _ = unflatten(t, out)
    return v


def eq_value(a, b, t):
    """Go == on two values of type t (z3 Bool)."""
    u = t.under()
    k = u.k
    if k == "array":
        et = t.prog.types[u.d["elem"]]
        n = u.d["len"]
        if is_scalar_type(et):
            if n > 256:
                raise Unsupported("== on large array")
            return z3.And([z3.Select(a.term, idx(i)) == z3.Select(b.term, idx(i)) for i in range(n)] or [z3.BoolVal(True)])
        return z3.And([eq_value(x, y, et) for x, y in zip(a.items, b.items)] or [z3.BoolVal(True)])
    if k == "struct":
        return z3.And([eq_value(a.f[name], b.f[name], ft) for name, ft, _ in t.fields()] or [z3.BoolVal(True)])
    if k == "basic" and u.d.get("b") == "string":
        raise Unsupported("string == handled by executor")
    if k == "slice":
        raise Unsupported("slice ==")
    fa = flatten(a, t)
    fb = flatten(b, t)
    return z3.And([x == y for x, y in zip(fa, fb)])
