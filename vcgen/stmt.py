"""Statement execution, loops, and the per-function verification driver."""
import z3

from .values import *  # noqa
from .sym import (TRUE, FALSE, RS, IS, zand, zor, znot, zimp, State, Frame, VarLV)


class _LoopCtx:
    def __init__(self, kind):
        self.kind = kind  # 'loop' | 'switch' | 'select'
        self.breaks = []
        self.continues = []
        self.label = None


class StmtMixin:
    # ------------------------------------------------------------ merging
    def var_type(self, key):
        if isinstance(key, int):
            return self.prog.types[self.prog.objects[key]["t"]]
        return self.syn_types[key]

    def merge(self, a, b):
        if a is None:
            return b
        if b is None:
            return a
        c = a.pc
        m = State()
        m.pc = z3.simplify(zor(a.pc, b.pc))
        for side, other in ((a, b), (b, a)):
            for k in side.vars:
                # a `defer` that one path never reached is simply not armed on that path
                if isinstance(k, tuple) and k[0] == "defer" and k not in other.vars:
                    other.vars[k] = FALSE
        for k, va in a.vars.items():
            if k in b.vars:
                vb = b.vars[k]
                if va is vb:
                    m.vars[k] = va
                else:
                    try:
                        m.vars[k] = ite_value(c, va, vb, self.var_type(k))
                    except Unsupported as ex:
                        # the variable becomes unusable after the join; reading it later reports the reason
                        self.notes.append("variable %s dropped at join: %s" % (k, ex))
        for dname in ("mem", "heap"):
            da, db, dm = getattr(a, dname), getattr(b, dname), getattr(m, dname)
            for k in set(da) | set(db):
                xa, xb = da.get(k), db.get(k)
                if xa is None or xb is None:
                    other = xa if xa is not None else xb
                    base = self._base_array(dname, k, other)
                    xa = xa if xa is not None else base
                    xb = xb if xb is not None else base
                dm[k] = xa if (xa is xb or xa.eq(xb)) else z3.If(c, xa, xb)
        for k in set(a.ghost) | set(b.ghost):
            xa, xb = a.ghost.get(k), b.ghost.get(k)
            if xa is None or xb is None:
                if isinstance(k, tuple) and k[0] == "lit":
                    continue  # literal installed on one side only: reinstalled lazily
                x = xa if xa is not None else xb
                if z3.is_expr(x) and z3.is_bv(x):
                    zero = z3.BitVecVal(0, x.size())
                    xa = xa if xa is not None else zero
                    xb = xb if xb is not None else zero
                elif z3.is_expr(x) and z3.is_bool(x):
                    xa = xa if xa is not None else FALSE
                    xb = xb if xb is not None else FALSE
                elif z3.is_expr(x) and k in ("armedctx", "armedch", "ctxdone"):
                    base = z3.K(x.sort().domain(), FALSE)
                    xa = xa if xa is not None else base
                    xb = xb if xb is not None else base
                elif z3.is_expr(x) and isinstance(k, str) and (k.startswith("arg:") or k.startswith("ret:") or k.startswith("recv:")):
                    # recorded call values: on the side that never made the call any value will do
                    xa = xa if xa is not None else x
                    xb = xb if xb is not None else x
                else:
                    continue
            if z3.is_expr(xa):
                if z3.is_expr(xb) and xa.sort() != xb.sort():
                    # the same operation recorded with differently typed operands on the two paths (e.g. a call through
                    # an interface-typed argument): the recorded value is dropped, the counter is kept
                    continue
                m.ghost[k] = xa if xa.eq(xb) else z3.If(c, xa, xb)
            elif xa == xb:
                m.ghost[k] = xa
        return m

    def _base_array(self, dname, key, like):
        pre = "M_" if dname == "mem" else "H_"
        return z3.Const(pre + key, like.sort())

    def merge_all(self, states):
        out = None
        flat = []
        for s in states:
            if isinstance(s, list):
                flat.extend(s)
            elif s is not None:
                flat.append(s)
        for s in flat:
            out = self.merge(out, s) if out is not None else s
        return out

    # ------------------------------------------------------------ statements
    def ex_block(self, stmts, st):
        stmts = stmts or []
        for k, s in enumerate(stmts):
            if st is None:
                return None
            st = self.ex(s, st)
            if isinstance(st, list):
                # path-split mode: run the rest of the block once per incoming path
                outs = []
                for one in st:
                    o = self.ex_block(stmts[k + 1:], one)
                    if isinstance(o, list):
                        outs.extend(o)
                    elif o is not None:
                        outs.append(o)
                return self.pack(outs)
        return st

    def pack(self, outs):
        outs = [o for o in outs if o is not None]
        if not outs:
            return None
        if len(outs) == 1:
            return outs[0]
        return outs

    def join(self, outs):
        """Join of branch results: one merged state, or (path-split mode, outside loops) the list of paths."""
        flat = []
        for o in outs:
            if isinstance(o, list):
                flat.extend(o)
            elif o is not None:
                flat.append(o)
        if getattr(self, "nomerge", False) and not self.in_loop and len(flat) <= 64:
            if getattr(self, "nomerge_mode", "split") == "returns" and len(flat) == len([o for o in outs if o is not None]) == len(outs):
                # every branch fell through (none returned): a plain join, e.g. a switch that only computes a value
                return self.merge_all(flat)
            return self.pack(flat)
        return self.merge_all(flat)

    def ex(self, s, st):
        if z3.is_false(st.pc):
            return None
        m = getattr(self, "ex_" + s["k"], None)
        if m is None:
            raise Unsupported("statement kind " + s["k"])
        return m(s, st)

    def ex_BlockStmt(self, s, st):
        return self.ex_block(s.get("List"), st)

    def ex_EmptyStmt(self, s, st):
        return st

    def ex_ExprStmt(self, s, st):
        self.ev(s["X"], st)
        if st.ghost.get("panicked"):
            st.ghost.pop("panicked")
            return None
        return st

    def ex_LabeledStmt(self, s, st):
        self.pending_label = s["Label"]["Name"]
        return self.ex(s["Stmt"], st)

    def ex_DeclStmt(self, s, st):
        d = s["Decl"]
        if d["Tok"] != "var":
            return st  # const / type declarations
        for spec in d["Specs"]:
            names = spec["Names"]
            vals = spec.get("Values") or []
            if vals and len(vals) == len(names):
                for n, v in zip(names, vals):
                    if n["Name"] == "_":
                        self.ev(v, st)
                        continue
                    t = self.T(n)
                    self.bind_local(st, n["obj"], self.ev_assign(v, t, st), t)
            elif vals:
                tv = self.ev(vals[0], st)
                for n, v in zip(names, tv.items):
                    if n["Name"] != "_":
                        self.bind_local(st, n["obj"], v, self.T(n))
            else:
                for n in names:
                    if n["Name"] != "_":
                        t = self.T(n)
                        self.bind_local(st, n["obj"], self.zero_value(t), t)
        return st

    def bind_local(self, st, obj, v, t):
        if obj in self.escaped:
            p = self.new_object(st, v, t)
            st.vars[("esc", obj)] = p
            self.syn_types[("esc", obj)] = None
            return
        st.vars[obj] = v

    def ex_IncDecStmt(self, s, st):
        lv = self.lvalue(s["X"], st)
        t = self.T(s["X"])
        v = lv.get(self, st)
        one = bv(1, t.bits())
        lv.set(self, st, v + one if s["Tok"] == "++" else v - one)
        return st

    def ex_AssignStmt(self, s, st):
        tok = s["Tok"]
        lhs, rhs = s["Lhs"], s["Rhs"]
        if tok not in ("=", ":="):
            op = tok[:-1]
            lv = self.lvalue(lhs[0], st)
            t = self.T(lhs[0])
            x = lv.get(self, st)
            if op in ("<<", ">>"):
                y = self.ev(rhs[0], st)
                v = self.shift(op, x, t, y, self.T(rhs[0]), st, s)
            else:
                y = self.ev_typed(rhs[0], t, st)
                v = self.binop(op, x, y, t, st, s)
            lv.set(self, st, v)
            return st
        if len(lhs) == len(rhs):
            vals = []
            for l, r in zip(lhs, rhs):
                lt = self.lhs_type(l, r)
                vals.append(self.ev_assign(r, lt, st) if lt is not None else self.ev(r, st))
            if st.ghost.get("panicked"):
                st.ghost.pop("panicked")
                return None
            for l, v in zip(lhs, vals):
                self.assign_to(l, v, st, tok)
            return st
        # tuple forms
        r = rhs[0]
        if r["k"] == "TypeAssertExpr" or (r["k"] == "ParenExpr" and r["X"]["k"] == "TypeAssertExpr"):
            while r["k"] == "ParenExpr":
                r = r["X"]
            iv = self.ev(r["X"], st)
            t = self.prog.types[r["Type"]["t"]]
            ok = self.has_dyn_type(iv, t)
            st_ok = st.fork(zand(st.pc, ok))
            val = self.unbox(iv, t, st_ok)
            zero = self.zero_value(t)
            v = ite_value(ok, val, zero, t)
            self.assign_to(lhs[0], v, st, tok)
            self.assign_to(lhs[1], ok, st, tok)
            return st
        if r["k"] == "UnaryExpr" and r["Op"] == "<-":
            v, ok = self.chan_recv(r, st, commaok=True)
            self.assign_to(lhs[0], v, st, tok)
            self.assign_to(lhs[1], ok, st, tok)
            return st
        if r["k"] == "IndexExpr":
            v, ok = self.map_lookup(r, st)
            self.assign_to(lhs[0], v, st, tok)
            self.assign_to(lhs[1], ok, st, tok)
            return st
        tv = self.ev(r, st)
        if st.ghost.get("panicked"):
            st.ghost.pop("panicked")
            return None
        if not isinstance(tv, TupleV):
            raise Unsupported("tuple assignment from non-tuple")
        rts = self.T(r).under().d.get("elems") or []
        for i, (l, v) in enumerate(zip(lhs, tv.items)):
            if l.get("Name") != "_" or l["k"] != "Ident":
                lt = self.lhs_type(l, None)
                if lt is not None and i < len(rts):
                    v = self.coerce(v, self.prog.types[rts[i]["t"]], lt, st)
            self.assign_to(l, v, st, tok)
        return st

    def lhs_type(self, l, r):
        if l["k"] == "Ident" and l["Name"] == "_":
            return None
        if "t" in l:
            return self.T(l)
        return None

    def assign_to(self, l, v, st, tok):
        if l["k"] == "Ident":
            if l["Name"] == "_":
                return
            obj = l["obj"]
            if obj in self.escaped:
                if tok == ":=" and ("esc", obj) not in st.vars:
                    self.bind_local(st, obj, v, self.T(l))
                    return
                p = st.vars[("esc", obj)]
                self.deref_lv(p, self.T(l)).set(self, st, v)
                return
            o = self.prog.objects[obj]
            if o.get("global"):
                raise Unsupported("assignment to package-level variable " + o["name"])
            st.vars[obj] = v
            return
        self.lvalue(l, st).set(self, st, v)

    def ex_ReturnStmt(self, s, st):
        fr = self.frames[-1]
        res = s.get("Results") or []
        rtypes = fr.result_types
        if not res:
            vals = [st.vars[o] for o in fr.named_results]
        elif len(res) == len(rtypes):
            vals = [self.ev_assign(r, t, st) for r, t in zip(res, rtypes)]
        else:
            tv = self.ev(res[0], st)
            src = self.T(res[0]).under().d.get("elems") or []
            vals = [self.coerce(v, self.prog.types[src[i]["t"]], rtypes[i], st) for i, v in enumerate(tv.items)]
        if st.ghost.get("panicked"):
            st.ghost.pop("panicked")
            return None
        for o, v in zip(fr.named_results, vals):
            st.vars[o] = v
        fr.rets.append((st, vals))
        return None

    def ex_IfStmt(self, s, st):
        if s.get("Init"):
            st = self.ex(s["Init"], st)
            if st is None:
                return None
        c = self.ev(s["Cond"], st)
        c = z3.simplify(c)
        st1 = st.fork(zand(st.pc, c))
        st2 = st.fork(zand(st.pc, znot(c)))
        out1 = None if z3.is_false(c) else self.ex(s["Body"], st1)
        out2 = st2
        if z3.is_true(c):
            out2 = None
        elif s.get("Else"):
            out2 = self.ex(s["Else"], st2)
        return self.join([out1, out2])

    def ex_BranchStmt(self, s, st):
        tok = s["Tok"]
        label = s["Label"]["Name"] if s.get("Label") else None
        fr = self.frames[-1]
        if tok == "break":
            for ctx in reversed(fr.loops):
                if label is None or ctx.label == label:
                    ctx.breaks.append(st)
                    return None
        if tok == "continue":
            for ctx in reversed(fr.loops):
                if ctx.kind == "loop" and (label is None or ctx.label == label):
                    ctx.continues.append(st)
                    return None
        raise Unsupported("branch " + tok)

    def ex_SwitchStmt(self, s, st):
        if s.get("Init"):
            st = self.ex(s["Init"], st)
        tag = None
        tt = None
        if s.get("Tag"):
            tag = self.ev(s["Tag"], st)
            tt = self.T(s["Tag"])
        ctx = _LoopCtx("switch")
        ctx.label = getattr(self, "pending_label", None)
        self.pending_label = None
        fr = self.frames[-1]
        fr.loops.append(ctx)
        outs = []
        remaining = st
        default = None
        for cl in s["Body"]["List"]:
            if not cl.get("List"):
                default = cl
                continue
            conds = []
            for x in cl["List"]:
                if tag is None:
                    conds.append(self.ev(x, remaining))
                else:
                    y = self.ev_typed(x, tt, remaining)
                    conds.append(self.binop("==", tag, y, tt, remaining, x))
            cond = z3.simplify(zor(*conds))
            if not z3.is_false(cond):
                cst = remaining.fork(zand(remaining.pc, cond))
                outs.append(self.ex_block(cl.get("Body"), cst))
            remaining = remaining.fork(zand(remaining.pc, znot(cond)))
            if z3.is_true(cond):
                break
        if not z3.is_false(z3.simplify(remaining.pc)):
            if default is not None:
                outs.append(self.ex_block(default.get("Body"), remaining))
            else:
                outs.append(remaining)
        fr.loops.pop()
        return self.join(outs + ctx.breaks)

    def ex_TypeSwitchStmt(self, s, st):
        if s.get("Init"):
            st = self.ex(s["Init"], st)
        a = s["Assign"]
        if a["k"] == "AssignStmt":
            x = a["Rhs"][0]["X"]
        else:
            x = a["X"]["X"]
        iv = self.ev(x, st)
        xt = self.T(x)
        ctx = _LoopCtx("switch")
        fr = self.frames[-1]
        fr.loops.append(ctx)
        outs = []
        remaining = st
        default = None
        default_obj = -1
        impl = s.get("implicits") or []
        for ci, cl in enumerate(s["Body"]["List"]):
            obj = impl[ci] if ci < len(impl) else -1
            if not cl.get("List"):
                default = cl
                default_obj = obj
                continue
            conds = []
            types = []
            for x_ in cl["List"]:
                if x_.get("isnil") or (x_["k"] == "Ident" and x_["Name"] == "nil"):
                    conds.append(iv.tag == rid(0))
                    types.append(None)
                else:
                    t = self.prog.types[x_["t"]]
                    conds.append(self.has_dyn_type(iv, t))
                    types.append(t)
            cond = zor(*conds)
            cst = remaining.fork(zand(remaining.pc, cond))
            if obj >= 0:
                if len(types) == 1 and types[0] is not None:
                    cst.vars[obj] = self.unbox(iv, types[0], cst)
                else:
                    cst.vars[obj] = iv
            outs.append(self.ex_block(cl.get("Body"), cst))
            remaining = remaining.fork(zand(remaining.pc, znot(cond)))
        if default is not None:
            if default_obj >= 0:
                remaining.vars[default_obj] = iv
            outs.append(self.ex_block(default.get("Body"), remaining))
        else:
            outs.append(remaining)
        fr.loops.pop()
        return self.join(outs + ctx.breaks)

    # ------------------------------------------------------------ loops
    def loop_clauses(self, s, kind):
        c = self.frames[-1].func.contract if self.frames[-1].func is not None else None
        if c is None:
            return []
        n = s.get("loop", 0)
        return [cl for cl in c.clauses if cl["kind"] == kind and cl.get("loop") == n]

    def assigned_in(self, node, acc=None, regions=None, fields=None, depth=0):
        """Syntactic over-approximation of what a statement tree may modify."""
        if acc is None:
            acc, regions, fields = set(), [], set()
        if isinstance(node, list):
            items = node
            if items and isinstance(items[-1], dict) and items[-1].get("k") == "ReturnStmt":
                # a statement list that always ends in `return` leaves the loop: what it does after its last
                # possible `continue`/`break` never reaches the loop head again
                last_branch = -1
                for k_, x in enumerate(items):
                    if self.contains_branch(x):
                        last_branch = k_
                items = items[:last_branch + 1]
            for x in items:
                self.assigned_in(x, acc, regions, fields, depth)
            return acc, regions, fields
        if not isinstance(node, dict):
            return acc, regions, fields
        k = node.get("k")
        if k == "AssignStmt":
            for l in node["Lhs"]:
                self._lhs_effect(l, acc, regions, fields)
        elif k == "IncDecStmt":
            self._lhs_effect(node["X"], acc, regions, fields)
        elif k == "RangeStmt":
            for nm in ("Key", "Value"):
                if node.get(nm):
                    self._lhs_effect(node[nm], acc, regions, fields)
        elif k == "CallExpr":
            self._call_effect(node, acc, regions, fields, depth)
        elif k == "FuncLit":
            pass
        for key, v in node.items():
            if key in ("t", "cv", "sel"):
                continue
            if isinstance(v, (dict, list)):
                self.assigned_in(v, acc, regions, fields, depth)
        return acc, regions, fields

    def contains_branch(self, node):
        if isinstance(node, list):
            return any(self.contains_branch(x) for x in node)
        if not isinstance(node, dict):
            return False
        if node.get("k") == "BranchStmt":
            return True
        if node.get("k") == "FuncLit":
            return False
        return any(self.contains_branch(v) for k_, v in node.items() if isinstance(v, (dict, list)) and k_ not in ("t", "cv", "sel"))

    def _lhs_effect(self, l, acc, regions, fields):
        k = l["k"]
        if k == "ParenExpr":
            return self._lhs_effect(l["X"], acc, regions, fields)
        if k == "Ident":
            if "obj" in l:
                acc.add(l["obj"])
            return
        if k == "IndexExpr":
            xt = self.T(l["X"])
            if xt.under().k == "array":
                return self._lhs_effect(l["X"], acc, regions, fields)
            regions.append(l["X"])
            return
        if k == "SelectorExpr":
            sel = l.get("sel")
            if sel and sel["kind"] == "field":
                path = self.field_path(self.T(l["X"]), sel["index"])
                ptr_seen = any(p[3] for p in path)
                if ptr_seen:
                    for (stype, name, ft, via_ptr) in path:
                        fields.add((stype.name(), name))
                else:
                    self._lhs_effect(l["X"], acc, regions, fields)
            return
        if k == "StarExpr":
            t = self.T(l)
            fields.add(("*" + t.s, None))
            if t.under().k == "struct":
                for name, ft, _ in t.fields():
                    fields.add((t.name(), name))

    def _call_effect(self, node, acc, regions, fields, depth):
        kind = node.get("call")
        if kind == "builtin":
            b = node.get("builtin")
            if b in ("copy",):
                regions.append(node["Args"][0])
            if b == "append":
                regions.append(node["Args"][0])
            return
        callee = node.get("callee")
        if callee is None:
            return
        eff = self.lib_effects(callee, node)
        if eff is not None:
            for a in eff:
                regions.append(a)
            return
        f = self.prog.funcs.get(callee)
        if f is None:
            return
        mods = self.contract_modifies(f)
        if mods is not None:
            # contracted callee: its modifies list, mapped to argument expressions
            for m in mods:
                if m["kind"] == "param-region":
                    ai = m["index"]
                    if ai < 0:
                        fun = node["Fun"]
                        if fun["k"] == "SelectorExpr":
                            regions.append(fun["X"])
                    elif ai < len(node["Args"]):
                        regions.append(node["Args"][ai])
                elif m["kind"] == "field":
                    fields.add((m["type"], m["field"]))
                elif m["kind"] == "all-fields":
                    fields.add((m["type"], "*"))
            return
        if depth < 4 and (f.spec or self.should_inline(f)):
            body = f.node.get("Body")
            self.assigned_in(body, set(), regions_sink := [], fields, depth + 1)
            # regions written inside an inlined callee are expressed in its own variables: be coarse
            if regions_sink:
                regions.append(None)

    def havoc_for_loop(self, s, st, body_nodes):
        acc, regions, fields = self.assigned_in(body_nodes)
        for obj in acc:
            if obj in st.vars:
                t = self.var_type(obj)
                name = self.prog.objects[obj]["name"]
                v = self.fresh_value(t, name + "@loop")
                self.type_facts(st, v, t, param=False)
                st.vars[obj] = v
            elif ("esc", obj) in st.vars:
                t = self.prog.types[self.prog.objects[obj]["t"]]
                fields.add(("*" + t.s, None))
        coarse = False
        for r in regions:
            if r is None:
                coarse = True
                continue
            try:
                self.spec += 1
                sl = self.ev(r, st)
            except Unsupported:
                coarse = True
                continue
            finally:
                self.spec -= 1
            if not isinstance(sl, SliceV):
                continue
            if sl.lv is not None:
                a = sl.lv.get(self, st)
                sl.lv.set(self, st, ArrV(a.n, a.elem, term=self.fresh("arr@loop", a.term.sort())))
                continue
            if z3.is_bv_value(z3.simplify(sl.rid)) or True:
                for i, (_, srt) in enumerate(leaves(sl.elem)):
                    key = self.mem_key(sl.elem, i, srt)
                    m = self.mem_arr(st, key, srt)
                    st.mem[key] = z3.Store(m, sl.rid, self.fresh("reg@loop", z3.ArraySort(IS, srt)))
        if coarse:
            for key in list(st.mem):
                st.mem[key] = self.fresh("mem@loop", st.mem[key].sort())
        for (tn, fn) in fields:
            prefix = (tn + ".") if fn == "*" else ((tn + "." + fn + "#") if fn is not None else (tn + "#"))
            touched = False
            for key in list(st.heap):
                if key.startswith(prefix):
                    st.heap[key] = self.fresh("heap@loop", st.heap[key].sort())
                    touched = True
            if not touched:
                self.pending_heap_havoc.add(prefix)

    def check_invariants(self, s, st, which):
        for cl in self.loop_clauses(s, "invariant"):
            g = self.eval_clause(cl, st)
            self.oblige(st, "invariant-" + which, "loop%d-%s" % (s.get("loop", 0), cl["label"]), g, cl.get("ln"), cl["text"])

    def assume_invariants(self, s, st):
        for cl in self.loop_clauses(s, "invariant"):
            g = self.eval_clause(cl, st)
            self.assume(st, g)

    def variant_value(self, s, st):
        cls = self.loop_clauses(s, "decreases")
        if not cls:
            return None, None
        self.spec += 1
        try:
            v = self.eval_clause(cls[0], st, boolean=False)
        finally:
            self.spec -= 1
        return v, cls[0]

    def unroll_bound(self, s):
        cls = self.loop_clauses(s, "unroll")
        if cls:
            return int(cls[0]["text"].split()[0])
        return None

    def ex_ForStmt(self, s, st):
        if s.get("Init"):
            st = self.ex(s["Init"], st)
            if st is None:
                return None
        fr = self.frames[-1]
        ctx = _LoopCtx("loop")
        ctx.label = getattr(self, "pending_label", None)
        self.pending_label = None
        k = self.unroll_bound(s)
        if k is None and isinstance(self.cfg, dict) and self.cfg.get("auto_unroll") and not self.loop_clauses(s, "invariant") \
                and not self.loop_clauses(s, "preserves") and not self.loop_clauses(s, "exits") and s.get("Cond"):
            k = int(self.cfg["auto_unroll"])
        if k is not None:
            return self.unrolled_for(s, st, k, ctx)
        self.check_invariants(s, st, "entry")
        havoc_ev = set()
        while True:
            # Operation counters the body changes on a path that iterates again are havoc'd at the loop head (the
            # loop may have performed them any number of times before the arbitrary iteration).  Which ones is only
            # known after executing the body, so the loop is re-executed with a larger havoc set until it is stable.
            snap = self.exec_snapshot(fr)
            ctx.breaks, ctx.continues = [], []
            head = st.fork()
            self.havoc_for_loop(s, head, [s.get("Body"), s.get("Post"), s.get("Cond")])
            self.havoc_counters(head, havoc_ev)
            self.induction_facts(s, st, head)
            self.assume_invariants(s, head)
            iter_pre = head.fork()
            c = self.ev(s["Cond"], head) if s.get("Cond") else TRUE
            v0, vcl = self.variant_value(s, head)
            body = head.fork(zand(head.pc, c))
            fr.loops.append(ctx)
            self.iter_stack.append(None)
            self.in_loop += 1
            try:
                out = self.ex(s["Body"], body)
            finally:
                self.in_loop -= 1
            out = self.merge_all([o for o in [out] + ctx.continues if o is not None])
            if out is not None and s.get("Post"):
                out = self.ex(s["Post"], out)
            self.iter_stack.pop()
            fr.loops.pop()
            more = self.loop_counter_changes(s, head, out) - havoc_ev if out is not None else set()
            if not more:
                # `loop N exits [l] e`: e holds at every `return` executed inside the (arbitrary) iteration; the
                # function's results are result/resultK, locals are in scope, old(x) is x at the iteration's start
                for (rs_, rv_) in fr.rets[snap["rets"]:]:
                    for cl in self.loop_clauses(s, "exits"):
                        g = self.eval_clause(cl, rs_, results=rv_, old=iter_pre)
                        self.oblige(rs_, "exits", "loop%d-%s" % (s.get("loop", 0), cl["label"]), g, cl.get("ln"), cl["text"])
                break
            havoc_ev |= more
            self.exec_restore(fr, snap)
        if out is not None:
            for cl in self.loop_clauses(s, "preserves"):
                # per-iteration contract: old(x) is x at the start of the (arbitrary) iteration, zzCalls counts within it
                g = self.eval_clause(cl, out, old=iter_pre)
                self.oblige(out, "preserves", "loop%d-%s" % (s.get("loop", 0), cl["label"]), g, cl.get("ln"), cl["text"])
            self.check_invariants(s, out, "preserved")
            if v0 is not None:
                v1, _ = self.variant_value(s, out)
                self.oblige(out, "termination", "loop%d-decreases" % s.get("loop", 0), z3.And(v1 < v0, v0 >= 0), vcl.get("ln"), vcl["text"])
        exit_st = head.fork(zand(head.pc, znot(c)))
        if z3.is_false(z3.simplify(exit_st.pc)):
            exit_st = None
        return self.merge_all([o for o in [exit_st] + ctx.breaks if o is not None])

    def unrolled_for(self, s, st, k, ctx):
        fr = self.frames[-1]
        fr.loops.append(ctx)
        exits = []
        cur = st
        self.bounded.add("%s loop %d unrolled %d times" % (self.prog.short(self.cur_func.full), s.get("loop", 0), k))
        for it in range(k + 1):
            if cur is None:
                break
            c = self.ev(s["Cond"], cur) if s.get("Cond") else TRUE
            ex_st = cur.fork(zand(cur.pc, znot(c)))
            if not z3.is_false(z3.simplify(ex_st.pc)):
                exits.append(ex_st)
            if it == k:
                # unwinding assertion: the loop cannot run longer under the stated bound
                self.oblige(cur, "unwind", "loop%d-bound%d" % (s.get("loop", 0), k), znot(c), s.get("ln"), "loop bound")
                break
            body = cur.fork(zand(cur.pc, c))
            ctx.continues = []
            self.in_loop += 1
            out = self.ex(s["Body"], body)
            self.in_loop -= 1
            out = self.merge_all([o for o in [out] + ctx.continues if o is not None])
            if out is not None and s.get("Post"):
                out = self.ex(s["Post"], out)
            cur = out
        fr.loops.pop()
        return self.merge_all([o for o in exits + ctx.breaks if o is not None])

    def ex_RangeStmt(self, s, st):
        xt = self.prog.types[s["xt"]] if "xt" in s else self.T(s["X"])
        u = xt.under()
        fr = self.frames[-1]
        ctx = _LoopCtx("loop")
        ctx.label = getattr(self, "pending_label", None)
        self.pending_label = None
        tok = s.get("Tok")
        if u.k == "sig":
            return self.range_over_func(s, st, ctx)
        if u.k == "chan":
            raise Unsupported("range over channel")
        if u.k == "map":
            raise Unsupported("range over map")
        is_int = xt.is_int()
        xv = self.ev(s["X"], st)
        if is_int:
            n = xv
            if xt.bits() < 64:
                n = z3.SignExt(64 - xt.bits(), n) if xt.signed() else z3.ZeroExt(64 - xt.bits(), n)
        elif u.k == "array":
            n = idx(u.d["len"])
        elif u.k == "ptr":
            raise Unsupported("range over pointer to array")
        else:
            n = xv.ln
        isstr = xt.is_string()
        k = self.unroll_bound(s)
        if k is not None:
            if isstr:
                raise Unsupported("unrolled range over string")
            return self.unrolled_range(s, st, k, ctx, xv, n, xt)
        if not self.loop_clauses(s, "invariant") and not isstr:
            r = self.try_fold_summary(s, st, xv, n, xt, ctx)
            if r is not NotImplemented:
                return r
            au = self.cfg.get("auto_unroll") if isinstance(self.cfg, dict) else None
            if au and not self.loop_clauses(s, "preserves"):
                # retry mode (driver): an unannotated loop is unrolled a few times under an unwinding obligation
                return self.unrolled_range(s, st, int(au), ctx, xv, n, xt)
        itkey = ("iter", id(s))
        self.syn_types[itkey] = self.int_type
        st.vars[itkey] = idx(0)
        self.iter_stack.append(itkey)
        if s.get("Key") and s["Key"].get("Name") != "_" and tok == ":=":
            st.vars[s["Key"]["obj"]] = self.int_of(idx(0), self.T(s["Key"]))
        self.check_invariants(s, st, "entry")
        havoc_ev = set()
        while True:
            # counted operations performed on iterating paths are havoc'd at the head (see ex_ForStmt)
            snap = self.exec_snapshot(fr)
            ctx.breaks, ctx.continues = [], []
            head = st.fork()
            self.havoc_for_loop(s, head, [s.get("Body")])
            self.havoc_counters(head, havoc_ev)
            i = self.fresh("i", IS)
            head.vars[itkey] = i
            self.assume(head, z3.And(i >= 0, i <= n))
            if s.get("Key") and s["Key"].get("Name") != "_":
                self.assign_to(s["Key"], self.int_of(i, self.T(s["Key"])), head, tok)
            self.assume_invariants(s, head)
            iter_pre = head.fork()
            body = head.fork(zand(head.pc, i < n))
            step = idx(1)
            if s.get("Value") and s["Value"].get("Name") != "_":
                if isstr:
                    v, step = self.decode_rune(body, xv, i)
                elif u.k == "array":
                    v = self.arr_get(xv, i)
                else:
                    v = self.slice_get(body, xv, i)
                self.assign_to(s["Value"], v, body, tok)
            elif isstr:
                _, step = self.decode_rune(body, xv, i)
            fr.loops.append(ctx)
            self.in_loop += 1
            try:
                out = self.ex(s["Body"], body)
            finally:
                self.in_loop -= 1
            out = self.merge_all([o for o in [out] + ctx.continues if o is not None])
            fr.loops.pop()
            more = self.loop_counter_changes(s, head, out) - havoc_ev if out is not None else set()
            if not more:
                break
            havoc_ev |= more
            self.exec_restore(fr, snap)
        if out is not None:
            for cl in self.loop_clauses(s, "preserves"):
                g = self.eval_clause(cl, out, old=iter_pre)
                self.oblige(out, "preserves", "loop%d-%s" % (s.get("loop", 0), cl["label"]), g, cl.get("ln"), cl["text"])
            out.vars[itkey] = i + step
            if s.get("Key") and s["Key"].get("Name") != "_":
                self.assign_to(s["Key"], self.int_of(i + step, self.T(s["Key"])), out, "=")
            self.check_invariants(s, out, "preserved")
        self.iter_stack.pop()
        exit_st = head.fork(zand(head.pc, i == n))
        if s.get("Key") and s["Key"].get("Name") != "_" and tok == "=":
            pass
        res = self.merge_all([o for o in [exit_st] + ctx.breaks if o is not None])
        return res

    def induction_facts(self, s, st0, head):
        """Facts that hold at the head of a counting loop by construction (classical induction-variable analysis), so that a
        `for i, x := a, b; i < n; i, x = i+1, x+c` needs no hand-written invariant for `a <= i <= n` and `x == b + (i-a)*c`:
        variables that only the Post statement changes, by a loop-invariant step (the primary one by +1, compared `<`/`<=`
        against a loop-invariant bound).  Modular arithmetic makes the linear relation exact even under wrap-around."""
        post = s.get("Post")
        if post is None or s.get("Cond") is None:
            return
        try:
            body_acc, _, _ = self.assigned_in(s.get("Body"))
            all_acc, _, _ = self.assigned_in([s.get("Body"), post])
        except Exception:
            return
        steps = {}   # obj -> step expr node or 1
        if post.get("k") == "IncDecStmt" and post["X"].get("k") == "Ident" and post.get("Tok") == "++":
            steps[post["X"].get("obj")] = 1
        elif post.get("k") == "AssignStmt" and post.get("Tok") in ("=", "+="):
            if post.get("Tok") == "+=" and len(post["Lhs"]) == 1 and post["Lhs"][0].get("k") == "Ident":
                steps[post["Lhs"][0].get("obj")] = post["Rhs"][0]
            elif post.get("Tok") == "=" and len(post["Lhs"]) == len(post["Rhs"]):
                for l, r in zip(post["Lhs"], post["Rhs"]):
                    if l.get("k") != "Ident" or r.get("k") != "BinaryExpr" or r.get("Op") != "+":
                        return
                    if r["X"].get("k") == "Ident" and r["X"].get("obj") == l.get("obj"):
                        steps[l.get("obj")] = r["Y"]
                    else:
                        return
        if not steps:
            return
        def invariant_expr(e):
            acc2 = set()
            def walk(n):
                if isinstance(n, dict):
                    if n.get("k") == "Ident" and "obj" in n:
                        acc2.add(n["obj"])
                    if n.get("k") == "CallExpr" and n.get("builtin") not in ("len", "cap"):
                        acc2.add("<call>")
                    for v in n.values():
                        walk(v)
                elif isinstance(n, list):
                    for v in n:
                        walk(v)
            walk(e)
            return "<call>" not in acc2 and not (acc2 & set(all_acc))
        for obj in list(steps):
            if obj is None or obj in body_acc or obj in self.escaped or obj not in st0.vars or obj not in head.vars:
                return
            if steps[obj] != 1 and not invariant_expr(steps[obj]):
                return
        cond = s["Cond"]
        prim = None
        if cond.get("k") == "BinaryExpr" and cond.get("Op") in ("<", "<=") and cond["X"].get("k") == "Ident" and cond["X"].get("obj") in steps:
            o = cond["X"]["obj"]
            st_ = steps[o]
            one = st_ == 1 or (isinstance(st_, dict) and st_.get("cv") is not None and st_["cv"].get("v") in (1, "1"))
            if one and invariant_expr(cond["Y"]) and self.T(cond["X"]).is_int() and self.T(cond["X"]).signed():
                prim = o
        if prim is None:
            return
        try:
            i0, i = st0.vars[prim], head.vars[prim]
            n = self.ev(cond["Y"], head)
            if not (z3.is_bv(i0) and z3.is_bv(i) and z3.is_bv(n)) or i0.size() != n.size():
                return
            hi = n if cond["Op"] == "<" else n + 1
            if cond["Op"] == "<=":
                return   # i <= n with n == MaxInt would overflow: not handled
            self.assume(head, z3.And(i0 <= i, z3.Implies(i0 <= hi, i <= hi), z3.Implies(i0 > hi, i == i0)))
            for obj, st_ in steps.items():
                if obj == prim:
                    continue
                x0, x = st0.vars[obj], head.vars[obj]
                cstep = self.ev(st_, head)
                if not (z3.is_bv(x0) and z3.is_bv(x) and z3.is_bv(cstep)) or x0.size() != i.size() or cstep.size() != i.size():
                    continue
                self.assume(head, x == x0 + (i - i0) * cstep)
            self.models_used.add("induction variables of counting loops (i from a by +1 while i < n; x by a loop-invariant step): bounds and linear relation assumed at the loop head by construction")
        except (Unsupported, KeyError):
            return

    def exec_snapshot(self, fr):
        return {"obs": len(self.obligations), "facts": len(self.facts), "rets": len(fr.rets), "defers": len(getattr(fr, "defers", [])),
                "vac": len(getattr(self, "vacuous_calls", [])), "notes": len(self.notes)}

    def exec_restore(self, fr, snap):
        del self.obligations[snap["obs"]:]
        self.facts.cut(snap["facts"])
        for k_ in [k_ for k_ in self.fact_pcs if k_ >= snap["facts"]]:
            del self.fact_pcs[k_]
        self.fp_defs = set(i_ for i_ in self.fp_defs if i_ < snap["facts"])
        del fr.rets[snap["rets"]:]
        if hasattr(fr, "defers"):
            del fr.defers[snap["defers"]:]
        if hasattr(self, "vacuous_calls"):
            del self.vacuous_calls[snap["vac"]:]
        del self.notes[snap["notes"]:]

    def havoc_counters(self, head, names):
        if not names:
            return
        clk = head.ghost.get("clock")
        if clk is None:
            clk = z3.BitVecVal(0, 64)
        adv = self.fresh("clock@loop", z3.BitVecSort(64))
        self.facts.append(z3.ULE(adv, z3.BitVecVal(1 << 40, 64)))
        nclk = clk + adv
        for nm in sorted(names):
            key = "ev:" + nm
            cur = head.ghost.get(key)
            if cur is None:
                cur = z3.BitVecVal(0, 64)
            d = self.fresh("calls@loop:" + nm, z3.BitVecSort(64))
            self.facts.append(z3.ULE(d, z3.BitVecVal(1 << 40, 64)))
            head.ghost[key] = cur + d
            sq = self.fresh("seq@loop:" + nm, z3.BitVecSort(64))
            self.facts.append(z3.ULE(sq, nclk))
            osq = head.ghost.get("seq:" + nm)
            if osq is None:
                osq = z3.BitVecVal(0, 64)
            head.ghost["seq:" + nm] = z3.If(d == z3.BitVecVal(0, 64), osq, sq)
            for k_ in [k_ for k_ in head.ghost if isinstance(k_, str) and (k_.startswith("arg:%s:" % nm) or k_.startswith("ret:%s:" % nm) or k_.startswith("recv:%s:" % nm))]:
                del head.ghost[k_]   # last-call values of earlier iterations are unknown
        head.ghost["clock"] = nclk

    def loop_counter_changes(self, s, head, out):
        """Tracked operations whose counter differs between the loop head and the end of an iterating path."""
        tracked = set(self.tracked_events()) if hasattr(self, "tracked_events") else set()
        c = getattr(self.cur_func, "contract", None)
        if c is not None:
            import re as _re
            for cl in c.clauses:
                tracked |= set(_re.findall(r'zz(?:Calls|Seq|Arg|Ret|Recv)(?:\[[^\]]*\])?\("([^"]+)"', cl.get("text") or ""))
        changed = set()
        for k, v in out.ghost.items():
            if isinstance(k, str) and k.startswith("ev:") and k[3:] in tracked and not k.startswith("ev:select.arm:"):
                h = head.ghost.get(k)
                same = (h is None and z3.is_bv_value(z3.simplify(v)) and z3.simplify(v).as_long() == 0) or (h is not None and z3.is_expr(v) and z3.simplify(v - h).eq(z3.BitVecVal(0, 64)))
                if not same:
                    changed.add(k[3:])
        return changed

    def check_loop_counters(self, s, head, out):
        """Operation counters are not havoc'd at loop heads: a loop may only perform tracked operations on paths that leave it."""
        tracked = set(self.tracked_events()) if hasattr(self, "tracked_events") else set()
        c = getattr(self.cur_func, "contract", None)
        if c is not None:
            # operations the function's own clauses count or order are tracked here too
            import re as _re
            for cl in c.clauses:
                tracked |= set(_re.findall(r'zz(?:Calls|Seq|Arg|Ret|Recv)(?:\[[^\]]*\])?\("([^"]+)"', cl.get("text") or ""))
        for k, v in out.ghost.items():
            if isinstance(k, str) and k.startswith("ev:") and k[3:] in tracked and not k.startswith("ev:select.arm:"):
                h = head.ghost.get(k)
                same = (h is None and z3.is_bv_value(z3.simplify(v)) and z3.simplify(v).as_long() == 0) or (h is not None and z3.is_expr(v) and z3.simplify(v - h).eq(z3.BitVecVal(0, 64)))
                if not same:
                    raise Unsupported("loop %d performs the tracked operation %s on a path that iterates again (needs a counter invariant)" % (s.get("loop", 0), k[3:]))

    def int_of(self, i64, t):
        b = t.bits()
        return i64 if b == 64 else z3.Extract(b - 1, 0, i64)

    def decode_rune(self, st, s, i):
        """range over string: rune and width at byte index i (exact for ASCII, abstract otherwise)."""
        (_, _, a), = self.region_arrays(st, s)
        b0 = z3.Select(a, s.off + i)
        w = self.fresh("runew", IS)
        r = self.fresh("rune", z3.BitVecSort(32))
        self.assume(st, z3.And(w >= 1, w <= 4, i + w <= s.ln,
                               z3.Implies(z3.ULT(b0, bv(0x80, 8)), z3.And(w == 1, r == z3.ZeroExt(24, b0))),
                               z3.Implies(z3.UGE(b0, bv(0x80, 8)), z3.And(z3.UGE(r, bv(0x80, 32)), z3.ULE(r, bv(0x10FFFF, 32))))))
        return r, w

    def unrolled_range(self, s, st, k, ctx, xv, n, xt):
        fr = self.frames[-1]
        fr.loops.append(ctx)
        self.bounded.add("%s loop %d unrolled %d times" % (self.prog.short(self.cur_func.full), s.get("loop", 0), k))
        exits = []
        cur = st
        tok = s.get("Tok")
        u = xt.under()
        for it in range(k + 1):
            if cur is None:
                break
            c = idx(it) < n
            ex_st = cur.fork(zand(cur.pc, znot(c)))
            if not z3.is_false(z3.simplify(ex_st.pc)):
                exits.append(ex_st)
            if it == k:
                self.oblige(cur, "unwind", "loop%d-bound%d" % (s.get("loop", 0), k), znot(c), s.get("ln"), "loop bound")
                break
            body = cur.fork(zand(cur.pc, c))
            if s.get("Key") and s["Key"].get("Name") != "_":
                self.assign_to(s["Key"], self.int_of(idx(it), self.T(s["Key"])), body, tok)
            if s.get("Value") and s["Value"].get("Name") != "_":
                v = self.arr_get(xv, idx(it)) if u.k == "array" else self.slice_get(body, xv, idx(it))
                self.assign_to(s["Value"], v, body, tok)
            ctx.continues = []
            self.in_loop += 1
            out = self.ex(s["Body"], body)
            self.in_loop -= 1
            cur = self.merge_all([o for o in [out] + ctx.continues if o is not None])
        fr.loops.pop()
        return self.merge_all([o for o in exits + ctx.breaks if o is not None])

    def range_over_func(self, s, st, ctx):
        raise Unsupported("range over function iterator")

    def ex_DeferStmt(self, s, st):
        fr = self.frames[-1]
        call = s["Call"]
        # arguments are evaluated now, the call runs at function exit
        flag = ("defer", id(s))
        self.syn_types[flag] = self.bool_type
        st.vars[flag] = TRUE
        fr.defers.append((flag, call, st.fork()))
        return st

    def ex_GoStmt(self, s, st):
        self.trace_event(st, "go", s["Call"])
        # goroutine accounting (syntactic): does the spawned function literal defer a WaitGroup.Done, and on which
        # WaitGroup expression?  `go.done:<expr>` / `go.nodone` let a contract state "every goroutine this call
        # starts is registered on the WaitGroup its owner joins".
        call = s["Call"]
        fun = call.get("Fun") or {}
        done = None
        if fun.get("k") == "FuncLit":
            for b in (fun.get("Body") or {}).get("List") or []:
                if b.get("k") == "DeferStmt":
                    f2 = (b.get("Call") or {}).get("Fun") or {}
                    if f2.get("k") == "SelectorExpr" and f2["Sel"]["Name"] == "Done":
                        x_ = f2["X"]
                        # named by the field / variable that holds the WaitGroup (not by the receiver's name)
                        done = x_["Sel"]["Name"] if x_.get("k") == "SelectorExpr" else self.expr_text(x_)
        self.trace_event(st, "go.done:" + done if done else "go.nodone")
        return st

    def ex_SendStmt(self, s, st):
        return self.chan_send(s, st)

    def ex_SelectStmt(self, s, st):
        return self.select_stmt(s, st)
