import os
"""Calls: builtins, trusted library models, modular (contract) calls, inlined spec functions, clause evaluation."""
import z3

from .values import *  # noqa
from .values import _byte_type
from .sym import (TRUE, FALSE, RS, IS, zand, zor, znot, zimp, State, Frame, HeapLV)
from .expr import ERR_TAG

SPEC_FUNCS = ("zzArmedCtx", "zzArmedChan", "zzRecv", "zzArg", "zzRet", "zzSeq", "zzCalls", "zzStrIsBytes", "zzSameStr", "zzDisjoint", "zzDisjointStr", "zzOld", "zzImp", "zzForall", "zzExists", "zzResult", "zzIter", "zzFresh", "zzAlloc", "zzSameSlice", "zzNilErr", "zzLen")


class CallMixin:
    # ------------------------------------------------------------ dispatcher
    def call(self, e, st):
        kind = e.get("call")
        if kind == "conv":
            tt = self.T(e)
            arg = e["Args"][0]
            if arg.get("isnil"):
                return self.zero_value(tt)
            ft = self.T(arg)
            if "cv" in arg and ft.untyped() and tt.under().k != "iface":
                return self.const(arg, st, tt)
            return self.convert(self.ev(arg, st), ft, tt, st, e)
        if kind == "builtin":
            return self.builtin(e, st)
        callee = e.get("callee")
        if callee is not None:
            short = callee.rsplit(".", 1)[-1] if "(" not in callee else None
            if short in SPEC_FUNCS:
                return self.spec_builtin(short, e, st)
            lib = self.lib_call(callee, e, st)
            if lib is not NotImplemented:
                return lib
            if kind == "iface":
                return self.iface_call(callee, e, st)
            f = self.prog.funcs.get(callee)
            if f is not None:
                if f.contract is not None and "operation" in f.contract.flags:
                    # declared abstracted operation: counted, arguments/receiver/result recorded, body not entered
                    return self.unknown_call(callee, e, st)
                if f.contract is None:
                    try:
                        return self.call_func(f, e, st)
                    except Unsupported as ex:
                        # a contract-less callee whose receiver shape is outside the subset: treat like any other
                        # abstracted call (arbitrary result, recorded as an operation)
                        self.notes.append("call to %s abstracted: %s" % (callee, ex))
                        return self.unknown_call(callee, e, st)
                return self.call_func(f, e, st)
            return self.unknown_call(callee, e, st)
        # dynamic call through a function value
        fv = self.ev(e["Fun"], st)
        if isinstance(fv, FuncV):
            if fv.kind == "lit":
                args = self.eval_args(e, self.T(e["Fun"]), st)
                return self.inline_lit(fv, args, st, e)
            if fv.kind == "static":
                f = self.prog.funcs.get(fv.key)
                if f is not None:
                    return self.invoke(f, self.eval_args(e, self.T(e["Fun"]), st), st, e)
            if fv.kind == "bound":
                return self.call_bound(fv, self.eval_args(e, self.T(e["Fun"]), st), st, e)
        fe = e["Fun"]
        dyn = "<dynamic>"
        if fe.get("k") == "SelectorExpr":
            dyn = "fn:" + fe["Sel"]["Name"]   # call through a function-valued field: named by the field
        elif fe.get("k") == "Ident":
            dyn = "fn:" + fe.get("Name", "?")
        return self.unknown_call(dyn, e, st)

    def call_bound(self, fv, args, st, e):
        f = self.prog.funcs.get(fv.key)
        if f is None:
            return self.unknown_call(fv.key, e, st, evaluated=True)
        rt = self.T(f.node["Recv"]["List"][0]["Type"])
        rv = self.receiver_value(fv.node, rt, st)
        return self.invoke(f, [rv] + args, st, e)

    def eval_args(self, e, sigt, st):
        sig = sigt.under().d
        params = sig.get("params") or []
        args = e.get("Args") or []
        out = []
        variadic = sig.get("variadic")
        nfixed = len(params) - 1 if variadic else len(params)
        if len(args) == 1 and len(params) > 1 and self.T(args[0]).under().k == "tuple":
            tv = self.ev(args[0], st)
            return list(tv.items)
        for i, a in enumerate(args[:nfixed]):
            out.append(self.ev_assign(a, self.prog.types[params[i]["t"]], st))
        if variadic:
            vt = self.prog.types[params[-1]["t"]]
            rest = args[nfixed:]
            if e.get("Ellipsis"):
                out.append(self.ev(rest[0], st))
            else:
                et = vt.elem()
                if not rest:
                    out.append(self.zero_value(vt))
                else:
                    vals = [self.ev_assign(a, et, st) for a in rest]
                    sl = self.alloc_slice(st, et, idx(len(vals)), idx(len(vals)))
                    saved = self.frame_spec
                    self.frame_spec = None
                    for i, v in enumerate(vals):
                        self.slice_set(st, sl, idx(i), v)
                    self.frame_spec = saved
                    out.append(sl)
        return out

    # ------------------------------------------------------------ builtins
    def builtin(self, e, st):
        b = e.get("builtin")
        args = e.get("Args") or []
        if b in ("len", "cap"):
            a = args[0]
            at = self.T(a)
            u = at.under()
            if u.k == "array":
                return idx(u.d["len"])
            if u.k == "ptr":
                return idx(at.elem().under().d["len"])
            v = self.ev(a, st)
            if isinstance(v, SliceV):
                return v.ln if b == "len" else v.cap
            if u.k == "chan" or u.k == "map":
                f = z3.Function("len_" + u.k, RS, IS)
                r = f(v.term)
                return r
            raise Unsupported("len of %r" % at)
        if b == "append":
            return self.do_append(e, st)
        if b == "copy":
            dst = self.ev(args[0], st)
            src = self.ev(args[1], st)
            n = z3.If(dst.ln < src.ln, dst.ln, src.ln)
            n = z3.simplify(n)
            (_, _, sa), = self.region_arrays(st, src)
            arrs = self.region_arrays(st, dst)
            (_, _, da) = arrs[0]
            self.region_store(st, dst, [self.memcpy(da, dst.off, n, sa, src.off)], dst.off)
            return n
        if b == "make":
            t = self.T(e)
            u = t.under()
            if u.k == "slice":
                ln = self.index_value(args[1], st)
                cap = self.index_value(args[2], st) if len(args) > 2 else ln
                self.oblige(st, "safety", "make-len@%s" % self.site(e), z3.And(ln >= 0, ln <= cap, cap <= idx(2 * MAXLEN)), e.get("ln"), "make: 0 <= len <= cap")
                self.alloc_obligation(st, e, cap)
                self.alloc_sites.append((e, cap, t.elem(), st.pc))
                return self.alloc_slice(st, t.elem(), ln, cap)
            if u.k in ("chan", "map"):
                return OpaqueV(self.fresh_rid(), t)
            raise Unsupported("make of %r" % t)
        if b == "new":
            t = self.T(e)
            return self.new_object(st, self.zero_value(t.elem()), t.elem())
        if b in ("min", "max"):
            t = self.T(e)
            vals = [self.ev_typed(a, t, st) for a in args]
            r = vals[0]
            for v in vals[1:]:
                if t.is_float():
                    raise Unsupported("min/max on floats")
                lt = (v < r) if t.signed() else z3.ULT(v, r)
                if b == "min":
                    r = z3.If(lt, v, r)
                else:
                    r = z3.If(lt, r, v)
            return r
        if b == "panic":
            self.oblige(st, "safety", "panic@%s" % self.site(e), FALSE, e.get("ln"), "explicit panic must be unreachable")
            st.ghost["panicked"] = True
            return TupleV([])
        if b == "close":
            self.trace_event(st, "close", e)
            return TupleV([])
        if b == "recover":
            return IfaceV(rid(0), rid(0))
        if b == "delete" or b == "clear":
            return TupleV([])
        if b == "unsafe.String":
            p = self.ev(args[0], st)
            n = self.index_value(args[1], st)
            base = self.unsafe_ptr_slice(p)
            return SliceV(base.rid, base.off, n, n, _byte_type(self.prog), isstr=True)
        if b == "unsafe.SliceData" or b == "unsafe.StringData":
            v = self.ev(args[0], st)
            return self.make_unsafe_ptr(v)
        if b == "unsafe.Slice":
            p = self.ev(args[0], st)
            n = self.index_value(args[1], st)
            base = self.unsafe_ptr_slice(p)
            return SliceV(base.rid, base.off, n, n, self.T(e).elem())
        raise Unsupported("builtin " + str(b))

    def alloc_obligation(self, st, e, count):
        """Memory bound: every explicit allocation request (element count) stays within the `allocates` clause."""
        c = self.cur_func.contract if self.cur_func is not None else None
        if c is None or self.spec or self.call_depth > 0:
            return
        for cl in c.of("allocates"):
            bound = self.eval_clause(cl, st, boolean=False)
            self.oblige(st, "alloc", "request@%s:%s" % (self.site(e), cl["label"]), count <= bound, e.get("ln"),
                        "allocation request bounded by %s" % cl["text"])

    def make_unsafe_ptr(self, sl):
        """Pointer to the first element of a slice/string.  A *T produced by unsafe.SliceData is an abstract id p with
        total functions uregion(p), uoffset(p); unsafe.Slice / unsafe.String rebuild the window from them, so the pair
        is an identity on (region, offset) — also for pointers read back from the heap of a symbolic receiver."""
        ureg = z3.Function("uregion", RS, RS)
        uoff = z3.Function("uoffset", RS, IS)
        newp = self.fresh_rid()
        p = PtrV(z3.If(sl.rid == rid(0), rid(0), newp), sl.elem)
        self.facts.append(z3.And(ureg(newp) == sl.rid, uoff(newp) == sl.off))
        self.assumptions.add("unsafe.SliceData/StringData + unsafe.String/Slice are treated as identities on (region, offset)")
        return p

    def unsafe_ptr_slice(self, p):
        ureg = z3.Function("uregion", RS, RS)
        uoff = z3.Function("uoffset", RS, IS)
        oid = p.oid if isinstance(p, PtrV) else p.term
        # a pointer that existed before the call points into a region that existed before the call
        self.facts.append(z3.Implies(z3.ULT(oid, rid(FRESH_BASE)), z3.ULT(ureg(oid), rid(FRESH_BASE))))
        self.assumptions.add("unsafe.SliceData/StringData + unsafe.String/Slice are treated as identities on (region, offset)")
        return SliceV(ureg(oid), uoff(oid), None, None, None)

    def do_append(self, e, st):
        args = e["Args"]
        t = self.T(e)
        et = t.elem()
        s = self.ev_typed(args[0], t, st) if not args[0].get("isnil") else self.zero_value(t)
        if isinstance(s, SliceV) and s.lv is not None:
            raise Unsupported("append to array-backed slice")
        if self.acc_mode and not e.get("Ellipsis") and is_scalar_type(et):
            if self.acc_decode(s.rid) is not None:
                vals = [self.ev_assign(a, et, st) for a in args[1:]]
                return self.acc_append(s, vals)
        old_arrs = self.region_arrays(st, s)
        if e.get("Ellipsis"):
            src = self.ev(args[1], st)
            k = src.ln
            src_arrs = self.region_arrays(st, src)
            W = [self.memcpy(oa, s.off + s.ln, k, sa, src.off) for (_, _, oa), (_, _, sa) in zip(old_arrs, src_arrs)]
        else:
            vals = [self.ev_assign(a, et, st) for a in args[1:]]
            k = idx(len(vals))
            W = [oa for (_, _, oa) in old_arrs]
            for j, v in enumerate(vals):
                terms = flatten(v, et)
                W = [z3.Store(w, s.off + s.ln + idx(j), tm) for w, tm in zip(W, terms)]
            if not vals:
                return s
        newlen = s.ln + k
        inplace = z3.simplify(newlen <= s.cap)
        F = self.fresh_rid()
        newcap = self.fresh("cap", IS)
        self.assume(st, z3.And(newcap >= newlen, newcap <= idx(MAXLEN)))
        self.oblige(st, "safety", "append-len@%s" % self.site(e), newlen <= idx(MAXLEN), e.get("ln"), "append result length within the address space")
        self.alloc_sites.append((e, z3.If(inplace, idx(0), newcap), et, st.pc))
        st.ghost["alloc"] = st.ghost.get("alloc", z3.BitVecVal(0, 64)) + z3.If(inplace, idx(0), newcap * idx(self.elem_size(et)))
        # in-place write (only when it fits) and the grown copy
        if not z3.is_false(inplace):
            self.frame_region_write(st.fork(zand(st.pc, inplace, z3.simplify(k > 0))), s.rid, s.off + s.ln)
        for i, (_, srt) in enumerate(leaves(et)):
            key = self.mem_key(et, i, srt)
            m = self.mem_arr(st, key, srt)
            m = z3.Store(m, F, W[i])
            if not z3.is_false(inplace):
                m = z3.Store(m, s.rid, z3.If(inplace, W[i], old_arrs[i][2]) if not z3.is_true(inplace) else W[i])
            st.mem[key] = m
        if z3.is_true(inplace):
            return SliceV(s.rid, s.off, newlen, s.cap, et)
        return SliceV(z3.If(inplace, s.rid, F), s.off, newlen, z3.If(inplace, s.cap, newcap), et)

    # ------------------------------------------------------------ spec builtins (clause language)
    def spec_builtin(self, name, e, st):
        args = e.get("Args") or []
        if name == "zzOld":
            ctx = self.clause_ctx[-1] if self.clause_ctx else None
            pre = ctx["old"] if ctx else self.pre_state
            # evaluate in the pre-state, but with the current bindings of quantified / spec-local variables
            tmp = pre.fork()
            for k, v in st.vars.items():
                if k not in tmp.vars:
                    tmp.vars[k] = v
            tmp.pc = st.pc
            self.spec += 1
            try:
                r = self.ev(args[0], tmp)
            finally:
                self.spec -= 1
            if isinstance(r, SliceV) and r.snap is None and r.lv is None:
                # old(s)[j] reads the pre-state contents of s, not just its header
                r = SliceV(r.rid, r.off, r.ln, r.cap, r.elem, isstr=r.isstr, snap=tmp)
            return r
        if name == "zzImp":
            a = self.ev(args[0], st)
            b = self.ev_guarded(args[1], st, a)
            return zimp(a, b)
        if name in ("zzForall", "zzExists"):
            lit = args[0]
            params = []
            st2 = st.fork()
            bounds = []
            for fld in lit["Type"]["Params"]["List"]:
                for nm in fld["Names"]:
                    t = self.T(nm)
                    v = self.fresh(nm["Name"], scalar_sort(t))
                    st2.vars[nm["obj"]] = v
                    params.append(v)
            body = lit["Body"]["List"][0]["Results"][0]
            self.spec += 1
            try:
                b = self.ev(body, st2)
            finally:
                self.spec -= 1
            return z3.ForAll(params, b) if name == "zzForall" else z3.Exists(params, b)
        if name == "zzResult":
            i = int(args[0]["cv"]["v"])
            ctx = self.clause_ctx[-1]
            return ctx["results"][i]
        if name == "zzIter":
            key = self.iter_stack[-1]
            return st.vars[key]
        if name == "zzFresh":
            v = self.ev(args[0], st)
            # proving: allocated by this execution (any id above FRESH_BASE); assuming a callee's postcondition: allocated
            # inside the callee, i.e. an abstract id that differs from everything the caller itself has allocated
            base = ABSTRACT_BASE if getattr(self, "assuming_callee", 0) else FRESH_BASE
            if isinstance(v, SliceV):
                return zor(z3.UGE(v.rid, rid(base)), v.rid == rid(0))
            if isinstance(v, PtrV):
                return z3.UGE(v.oid, rid(base))
            if isinstance(v, IfaceV):
                return z3.UGE(v.oid, rid(base))
            if isinstance(v, OpaqueV):
                return z3.UGE(v.term, rid(base))
            raise Unsupported("fresh() of this value")
        if name in ("zzArg", "zzRet", "zzSeq", "zzRecv"):
            lit = args[0]["cv"]["v"]
            nm = bytes(lit).decode() if not isinstance(lit, str) else self._b64(lit).decode()
            if name == "zzSeq":
                v = st.ghost.get("seq:" + nm)
                return v if v is not None else z3.BitVecVal(0, 64)
            if name == "zzArg":
                i = int(args[1]["cv"]["v"])
                t = self.arg_types.get((nm, i))
                prefix = "arg:%s:%d:" % (nm, i)
            elif name == "zzRecv":
                t = self.arg_types.get((nm, "recv"))
                prefix = "recv:%s:" % nm
            else:
                t = self.arg_types.get((nm, "ret"))
                prefix = "ret:%s:" % nm
            want = self.T(e)
            if t is None:
                # the operation was never performed on any path: an arbitrary value
                return self.fresh_value(want, "noarg")
            n = len(leaves(t))
            terms = []
            for k_ in range(n):
                tm = st.ghost.get(prefix + str(k_))
                if tm is None:
                    return self.fresh_value(want, "noarg")
                terms.append(tm)
            v, _ = unflatten(t, terms)
            return self.coerce(v, t, want, st) if t.id != want.id else v
        if name == "zzCalls":
            nm = bytes(args[0]["cv"]["v"]).decode() if not isinstance(args[0]["cv"]["v"], str) else self._b64(args[0]["cv"]["v"]).decode()
            ctx = self.clause_ctx[-1] if self.clause_ctx else None
            pre = ctx["old"] if ctx else self.pre_state
            key = "ev:" + nm
            cur = st.ghost.get(key)
            old_ = pre.ghost.get(key) if pre is not None else None
            zero = z3.BitVecVal(0, 64)
            self.events_named.add(nm)
            return (cur if cur is not None else zero) - (old_ if old_ is not None else zero)
        if name == "zzArmedCtx":
            v = self.ev(args[0], st)
            arr = st.ghost.get("armedctx")
            return z3.Select(arr, v.oid) if arr is not None else FALSE
        if name == "zzArmedChan":
            v = self.ev(args[0], st)
            arr = st.ghost.get("armedch")
            if not isinstance(v, OpaqueV):
                raise Unsupported("zzArmedChan of this value")
            return z3.Select(arr, v.term) if arr is not None else FALSE
        if name == "zzStrIsBytes":
            a = self.ev(args[0], st)
            b = self.ev(args[1], st)
            return z3.And(a.ln == b.ln, z3.Or(a.ln == 0, z3.And(a.rid == b.rid, a.off == b.off)))
        if name == "zzSameStr":
            a = self.ev(args[0], st)
            b = self.ev(args[1], st)
            return z3.And(a.ln == b.ln, z3.Or(a.ln == 0, z3.And(a.rid == b.rid, a.off == b.off)))
        if name == "zzSameSlice":
            a = self.ev(args[0], st)
            b = self.ev(args[1], st)
            return z3.And(a.rid == b.rid, a.off == b.off, a.ln == b.ln)
        if name in ("zzDisjoint", "zzDisjointStr"):
            a = self.ev(args[0], st)
            b = self.ev(args[1], st)
            return z3.Or(a.rid != b.rid, a.rid == rid(0))
        if name == "zzAlloc":
            return st.ghost.get("alloc", z3.BitVecVal(0, 64))
        raise Unsupported("spec builtin " + name)

    def eval_clause(self, cl, st, results=None, old=None, boolean=True):
        if cl.get("err"):
            raise ClauseError(cl)
        ctx = {"results": results, "old": old if old is not None else (self.clause_ctx[-1]["old"] if self.clause_ctx else self.pre_state)}
        if results is None and self.clause_ctx:
            ctx["results"] = self.clause_ctx[-1]["results"]
        self.clause_ctx.append(ctx)
        self.spec += 1
        try:
            return self.ev(cl["expr"], st)
        finally:
            self.spec -= 1
            self.clause_ctx.pop()

    # ------------------------------------------------------------ calls into the program
    def should_inline(self, f):
        c = f.contract
        if c is not None and "inline" in c.flags:
            return True
        return f.full in self.cfg.get("inline", ())

    def contract_emits(self, f):
        c = f.contract
        if c is None:
            return []
        txt = (c.flags.get("emits") or "").strip()
        return [x.strip() for x in txt.split(",") if x.strip()]

    def footprint(self, f):
        """Operations the body of f may perform (transitively): inferred by executing f once, memoised per process.
        None = unknown (outside the subset / recursive): callers then havoc every counter they care about."""
        cache = self.prog.__dict__.setdefault("_footprints", {})
        if f.full in cache:
            return cache[f.full]
        cache[f.full] = None   # in progress (recursion) => unknown
        try:
            from .verify import Verifier
            v = Verifier(self.prog, self.cfg)
            v.footprint_only = True   # execute the body, skip the evaluation of its postconditions
            v.verify(f)
            fp = set(x for x in v.events_seen if not x.startswith("select.arm:"))
            if getattr(v, "footprint_unknown", False):
                fp = None
        except Exception:
            fp = None
        cache[f.full] = fp
        return fp

    def callee_events(self, f, st):
        """Counters a modular call of f may change: its declared `emits` plus the inferred footprint of its body;
        restricted to operations some clause can observe (the tracked set and the current function's own clauses)."""
        care = set(self.tracked_events()) if hasattr(self, "tracked_events") else set()
        c = getattr(self.cur_func, "contract", None)
        if c is not None:
            import re as _re
            for cl in c.clauses:
                care |= set(_re.findall(r'zz(?:Calls|Seq|Arg|Ret|Recv)(?:\[[^\]]*\])?\("([^"]+)"', cl.get("text") or ""))
        if not care:
            return []   # no clause of the loaded packages observes any operation: nothing to havoc
        names = set(self.contract_emits(f))
        fp = self.footprint(f)
        if fp is None:
            self.footprint_unknown = True
            names |= care | set(k[3:] for k in st.ghost if isinstance(k, str) and k.startswith("ev:"))
        else:
            names |= fp
        return sorted(n for n in names if n in care and not n.startswith("select.arm:"))

    def contract_modifies(self, f):
        c = f.contract
        if c is None or (not c.clauses and not c.flags):
            return None
        return self.parse_modifies(f)

    def parse_modifies(self, f):
        """modifies clause: comma list of parameter names (their backing regions), recv.field, or T.field."""
        c = f.contract
        txt = (c.flags.get("modifies") or "").strip()
        out = []
        if not txt or txt == "nothing":
            return out
        names = self.param_names(f)
        for item in [x.strip() for x in txt.split(",") if x.strip()]:
            if item in names:
                out.append({"kind": "param-region", "index": names[item]})
            elif "." in item:
                a, b = item.split(".", 1)
                contents = b.endswith("[*]")   # recv.field[*]: the field and every element of the array it points to
                if contents:
                    b = b[:-3]
                tn = self.resolve_type_name(f, a, names)
                out.append({"kind": "field", "type": tn, "field": b, "via": a, "contents": contents})
            else:
                raise Unsupported("modifies item %r of %s" % (item, f.full))
        return out

    def param_names(self, f):
        node = f.node
        names = {}
        if node.get("Recv") and node["Recv"].get("List"):
            for nm in node["Recv"]["List"][0].get("Names") or []:
                names[nm["Name"]] = -1
        i = 0
        for fld in node["Type"]["Params"].get("List") or []:
            nms = fld.get("Names") or [None]
            for nm in nms:
                if nm is not None:
                    names[nm["Name"]] = i
                i += 1
        return names

    def resolve_type_name(self, f, a, names):
        # a is a parameter / receiver name of pointer type, or a type name
        node = f.node
        if a in names:
            if names[a] == -1:
                t = self.T(node["Recv"]["List"][0]["Type"])
            else:
                i = 0
                t = None
                for fld in node["Type"]["Params"].get("List") or []:
                    for nm in fld.get("Names") or [None]:
                        if i == names[a]:
                            t = self.T(fld["Type"])
                        i += 1
            if t.under().k == "ptr":
                t = t.elem()
            return t.name()
        return f.pkg.path + "." + a

    def call_func(self, f, e, st):
        return self.invoke(f, self.call_values(f, e, st), st, e)

    def invoke(self, f, vals, st, e):
        """Call f with already-evaluated values (receiver first)."""
        c = f.contract
        if c is not None and "abstract" in c.flags:
            return self.abstract_call(f, vals, st)
        if c is not None and "observe" in c.flags:
            # an observation of shared state (e.g. IsSelected): any boolean may come back on any call; which one came
            # back is recorded, so contracts can say "if some observation during the call was false, then ..."
            nm = (c.flags.get("observe") or "").strip() or self.prog.short(f.full)
            r = self.fresh("obs", z3.BoolSort())
            one, zero = z3.BitVecVal(1, 64), z3.BitVecVal(0, 64)
            if not self.spec:
                for suffix, hit in ((":true", r), (":false", znot(r))):
                    key = "ev:" + nm + suffix
                    cur = st.ghost.get(key)
                    if cur is None:
                        cur = zero
                    st.ghost[key] = cur + z3.If(hit, one, zero)
                    self.events_seen.add(nm + suffix)
            return r
        if (f.spec and (c is None or not c.of("ensures"))) or self.should_inline(f):
            return self.inline_call(f, e, st, vals)
        if self.spec and (c is None or not (c.clauses or c.flags)):
            # a real function used inside a contract clause: evaluate its body (it must be loop-free)
            return self.inline_call(f, e, st, vals)
        if c is not None and (c.clauses or c.flags):
            return self.modular_call(f, e, st, vals)
        if f.full in self.cfg.get("inline", ()) or self.prog.short(f.full) in self.cfg.get("inline", ()):
            return self.inline_call(f, e, st, vals)
        if not self.spec and f.node.get("Body") is not None:
            # a contract-less function of the module treated as an opaque operation: remembered, so that a failing
            # proof can be re-tried with the helper's body in view (a refactoring that extracts a helper is harmless)
            if not hasattr(self, "abstracted_inmodule"):
                self.abstracted_inmodule = set()
            self.abstracted_inmodule.add(f.full)
        return self.unknown_call(f.full, e, st, evaluated=True)

    def abstract_call(self, f, vals, st):
        """Abstract (uninterpreted) specification function: a total function of its flattened arguments."""
        node = f.node
        sig = self.prog.types[node["sig"]].under().d
        ptypes = [self.prog.types[p["t"]] for p in sig.get("params") or []]
        flat = []
        for v, t in zip(vals, ptypes):
            flat.extend(flatten(v, t))
        rtypes = [self.prog.types[r["t"]] for r in sig.get("results") or []]
        outs = []
        for ri, rt in enumerate(rtypes):
            terms = []
            for li, (_, srt) in enumerate(leaves(rt)):
                fn = z3.Function("abs_%s#%d.%d" % (self.prog.short(f.full), ri, li), *([x.sort() for x in flat] + [srt]))
                terms.append(fn(*flat))
            v, _ = unflatten(rt, terms)
            outs.append(v)
        return outs[0] if len(outs) == 1 else TupleV(outs)

    def call_values(self, f, e, st):
        """Evaluate receiver + arguments of call node e to function f (values in declaration order, receiver first)."""
        node = f.node
        sigt = self.prog.types[node["sig"]]
        vals = []
        if node.get("Recv") and node["Recv"].get("List"):
            fun = e["Fun"]
            while fun["k"] == "ParenExpr":
                fun = fun["X"]
            rt = self.T(node["Recv"]["List"][0]["Type"])
            vals.append(self.receiver_value(fun, rt, st))
        return vals + self.eval_args(e, sigt, st)

    def bind_values(self, f, vals, callee_st):
        node = f.node
        i = 0
        if node.get("Recv") and node["Recv"].get("List"):
            for nm in node["Recv"]["List"][0].get("Names") or []:
                if nm["Name"] != "_":
                    callee_st.vars[nm["obj"]] = vals[0]
            i = 1
        for fld in node["Type"]["Params"].get("List") or []:
            for nm in fld.get("Names") or [None]:
                if nm is not None and nm["Name"] != "_":
                    if nm["obj"] in self.escaped:
                        raise Unsupported("callee parameter escapes")
                    callee_st.vars[nm["obj"]] = vals[i]
                i += 1

    def bind_params(self, f, e, st, callee_st):
        vals = self.call_values(f, e, st)
        self.bind_values(f, vals, callee_st)
        return vals

    def receiver_value(self, fun, rt, st):
        """fun is the SelectorExpr x.M; produce the receiver of declared type rt (auto & / *, embedded promotion)."""
        x = fun["X"]
        xt = self.T(x)
        sel = fun.get("sel") or {}
        path = (sel.get("index") or [])[:-1]
        want_ptr = rt.under().k == "ptr"
        cur_t = xt
        cur = None
        if not path and want_ptr and xt.under().k != "ptr":
            return self.addr_of(x, st)
        cur = self.ev(x, st)
        for i in path:
            if cur_t.under().k == "ptr":
                stype = cur_t.elem()
                name, ft, _ = stype.fields()[i]
                self.oblige(st, "safety", "nil-deref@%s" % self.site(fun), cur.oid != rid(0), fun.get("ln"), "nil pointer dereference (embedded receiver)")
                if ft.under().k == "struct":
                    root = getattr(cur, "root", None) or (stype, ())
                    cur = PtrV(cur.oid, ft, root=(root[0], root[1] + (name,)))
                    cur_t = self.ptr_type(ft)
                else:
                    cur = self.field_lv(cur, stype, name, ft).get(self, st)
                    cur_t = ft
            else:
                name, ft, _ = cur_t.fields()[i]
                cur = cur.f[name]
                cur_t = ft
        have_ptr = cur_t.under().k == "ptr"
        if want_ptr == have_ptr:
            return cur
        if have_ptr and not want_ptr:
            self.oblige(st, "safety", "nil-deref@%s" % self.site(fun), cur.oid != rid(0), fun.get("ln"), "nil pointer dereference (method receiver)")
            return self.deref_lv(cur, rt).get(self, st)
        raise Unsupported("address of embedded value receiver (line %s, %s)" % (fun.get("ln"), (fun.get("Sel") or {}).get("Name")))

    def inline_call(self, f, e, st, vals=None):
        if self.call_depth > 12:
            raise Unsupported("inline depth exceeded at " + f.full)
        if vals is None:
            vals = self.call_values(f, e, st)
        self.bind_values(f, vals, st)  # parameter objects are globally unique, so the caller's dict can hold them
        c = f.contract
        if c is not None and not self.spec and not f.spec and c.of("requires") and "inline" in c.flags:
            # an inlined callee's stated precondition is still an obligation of the call site
            pre = st.fork()
            for cl in c.of("requires"):
                g = self.eval_clause(cl, st, results=None, old=pre)
                self.oblige(st, "precondition", "call-%s@%s:%s" % (f.key, self.site(e), cl["label"]), g, e.get("ln"), "%s requires %s" % (f.key, cl["text"]))
        return self.run_body(f, f.node, st, e)

    def run_body(self, f, node, st, e):
        fr = Frame(f)
        sig = self.prog.types[node["sig"]].under().d if "sig" in node else self.T(node).under().d
        fr.result_types = [self.prog.types[r["t"]] for r in sig.get("results") or []]
        fr.named_results = []
        for fld in (node["Type"].get("Results") or {}).get("List") or []:
            for nm in fld.get("Names") or []:
                if nm["Name"] != "_":
                    fr.named_results.append(nm["obj"])
                    st.vars[nm["obj"]] = self.zero_value(self.T(nm))
        if len(fr.named_results) != len(fr.result_types):
            fr.named_results = []
        self.frames.append(fr)
        self.call_depth += 1
        saved_label = getattr(self, "pending_label", None)
        self.in_loop += 1   # inlined bodies always join their paths (path splitting is for the function under proof)
        try:
            out = self.ex_block(node["Body"]["List"], st)
        finally:
            self.in_loop -= 1
            self.call_depth -= 1
            self.frames.pop()
        rets = list(fr.rets)
        if out is not None:
            if fr.result_types and not fr.named_results:
                raise Unsupported("function %s falls off the end" % (f.full if f else "literal"))
            rets.append((out, [out.vars[o] for o in fr.named_results]))
        if not rets:
            # every path panics / diverges
            st.pc = FALSE
            return TupleV([self.zero_value(t) for t in fr.result_types]) if len(fr.result_types) != 1 else self.zero_value(fr.result_types[0])
        merged = None
        vals = None
        for (s_, v_) in rets:
            if merged is None:
                merged, vals = s_, v_
            else:
                c = merged.pc
                vals = [ite_value(c, a, b, t) for a, b, t in zip(vals, v_, fr.result_types)]
                merged = self.merge(merged, s_)
        merged = self.run_defers(fr, merged, vals)
        st.assign_from(merged)
        if len(vals) == 1:
            return vals[0]
        return TupleV(vals)

    def run_defers(self, fr, st, vals):
        for (flag, call, snap) in reversed(fr.defers):
            armed = st.vars.get(flag, FALSE)
            if z3.is_false(armed):
                continue
            d = st.fork(zand(st.pc, armed))
            for k_, v_ in snap.vars.items():
                # variables that were in scope at the defer statement (argument expressions are evaluated there)
                if k_ not in d.vars:
                    d.vars[k_] = v_
            self.ev(call, d)
            nd = st.fork(zand(st.pc, znot(armed)))
            pc = st.pc
            st = self.merge(d, nd)
            st.pc = pc
        return st

    def inline_lit(self, fv, args, st, e):
        node = fv.node
        i = 0
        for fld in node["Type"]["Params"].get("List") or []:
            for nm in fld.get("Names") or [None]:
                if nm is not None and nm["Name"] != "_":
                    st.vars[nm["obj"]] = args[i]
                i += 1
        return self.run_body(None, node, st, e)

    def modular_call(self, f, e, st, vals=None):
        c = f.contract
        if c is not None and "noframe" in c.flags:
            # its writes are not checked against a `modifies` list; a caller may only rely on it when the list is
            # stated explicitly (possibly `modifies nothing`), and that list is then a recorded assumption
            if "modifies" not in c.flags:
                raise Unsupported("modular call of %s, whose contract is `noframe` without an explicit `modifies`" % f.key)
            self.assumptions.add("frame of %s is not checked (`noframe`): callers assume it writes only `%s`" % (
                self.prog.short(f.full), (c.flags.get("modifies") or "nothing").strip() or "nothing"))
        node = f.node
        if vals is None:
            vals = self.call_values(f, e, st)
        env = State()
        env.mem, env.heap, env.ghost, env.pc = st.mem, st.heap, st.ghost, st.pc
        self.bind_values(f, vals, env)
        pre = env.fork()
        label_base = "call-%s@%s" % (f.key, self.site(e))
        # preconditions
        for cl in c.of("requires"):
            g = self.eval_clause(cl, env, results=None, old=pre)
            self.oblige(st, "precondition", label_base + ":" + cl["label"], g, e.get("ln"), "%s requires %s" % (f.key, cl["text"]))
        # frame: havoc what the callee may modify
        post = env
        for m in self.parse_modifies(f):
            self.apply_modifies(m, f, post, st)
        sig0 = self.prog.types[node["sig"]].under().d
        ptypes0 = [self.prog.types[p_["t"]] for p_ in sig0.get("params") or []]
        pvals0 = vals[1:] if (node.get("Recv") and node["Recv"].get("List")) else vals
        if len(pvals0) == len(ptypes0):
            self.record_call_values(st, self.prog.short(f.full), pvals0, ptypes0)
        self.trace_event(st, self.prog.short(f.full))
        post.ghost = dict(st.ghost)
        emitted_any = False
        for nm in self.callee_events(f, st):
            key = "ev:" + nm
            cur = post.ghost.get(key)
            if cur is None:
                cur = z3.BitVecVal(0, 64)
            d = self.fresh("calls@" + nm, z3.BitVecSort(64))
            self.facts.append(z3.And(z3.ULE(d, z3.BitVecVal(1 << 40, 64))))
            post.ghost[key] = cur + d
            # order: if the callee performed the operation, its last occurrence lies inside the call's time window
            clk0 = post.ghost.get("clock")
            if clk0 is None:
                clk0 = z3.BitVecVal(0, 64)
            sq = self.fresh("seq@" + nm, z3.BitVecSort(64))
            self.facts.append(z3.And(z3.UGT(sq, clk0), z3.ULE(sq, clk0 + z3.BitVecVal(1 << 20, 64))))
            oldsq = post.ghost.get("seq:" + nm)
            if oldsq is None:
                oldsq = z3.BitVecVal(0, 64)
            post.ghost["seq:" + nm] = z3.If(d == z3.BitVecVal(0, 64), oldsq, sq)
            emitted_any = True
            self.events_seen.add(nm)
        if emitted_any:
            clk0 = post.ghost.get("clock")
            if clk0 is None:
                clk0 = z3.BitVecVal(0, 64)
            post.ghost["clock"] = clk0 + z3.BitVecVal(1 << 20, 64)
        n_call_facts = len(self.facts)
        sig = self.prog.types[node["sig"]].under().d
        rtypes = [self.prog.types[r["t"]] for r in sig.get("results") or []]
        results = []
        for i, t in enumerate(rtypes):
            v = self.fresh_value(t, "%s.r%d" % (f.key, i))
            self.type_facts(st, v, t, param=False)
            results.append(v)
        # named results are visible to ensures clauses
        j = 0
        for fld in (node["Type"].get("Results") or {}).get("List") or []:
            for nm in fld.get("Names") or []:
                if nm["Name"] != "_":
                    post.vars[nm["obj"]] = results[j]
                j += 1
        st.mem, st.heap, st.ghost = post.mem, post.heap, post.ghost
        for cl in c.of("ensures") + c.of("trusts"):
            if cl.get("canary"):
                continue
            self.assuming_callee = getattr(self, "assuming_callee", 0) + 1
            try:
                g = self.eval_clause(cl, post, results=results, old=pre)
            finally:
                self.assuming_callee -= 1
            self.assume(st, g)
            if cl["kind"] == "trusts":
                self.assumptions.add("trusted (unproved) postcondition of %s: %s" % (self.prog.short(f.full), cl["text"]))
        if not self.spec:
            shortf = self.prog.short(f.full)
            for ri, (rv_, rt_) in enumerate(zip(results, rtypes)):
                try:
                    terms_ = flatten(rv_, rt_)
                except Unsupported:
                    continue
                if ri == 0:
                    for k_, tm in enumerate(terms_):
                        post.ghost["ret:%s:%d" % (shortf, k_)] = tm
                    self.arg_types[(shortf, "ret")] = rt_
        st.mem, st.heap, st.ghost = post.mem, post.heap, post.ghost
        self.called_contracts.add(f.full)
        if not self.spec:
            self.check_call_consistent(f, e, st, n_call_facts)
        if len(results) == 1:
            return results[0]
        return TupleV(results)

    def check_call_consistent(self, f, e, st, n0):
        """Vacuity guard: the postcondition assumed for a modular call must not contradict the path it is assumed on
        (e.g. a callee whose `modifies` omits a field it writes: the caller would keep the stale value, the assumed
        postcondition would contradict it, and everything after the call would verify vacuously)."""
        new = [x for x in self.facts[n0:] if not z3.is_true(x)]
        if not new or os.environ.get("GOVC_NO_CALLCHECK"):
            return
        s1 = z3.Solver()
        s1.set("timeout", 400)
        s1.add(st.pc)
        if s1.check() != z3.sat:
            return
        for x in new:
            s1.add(x)
        if s1.check() == z3.unsat:
            if os.environ.get("GOVC_DEBUG_VAC"):
                s2 = z3.Solver(); s2.set(unsat_core=True)
                s2.assert_and_track(st.pc, "pc")
                for i_, x in enumerate(new):
                    s2.assert_and_track(x, "n%d" % i_)
                s2.check()
                for c_ in s2.unsat_core():
                    nm_ = str(c_)
                    print("VACCORE", nm_, (str(st.pc) if nm_ == "pc" else str(new[int(nm_[1:])]))[:1500])
            if not hasattr(self, "vacuous_calls"):
                self.vacuous_calls = []
            self.vacuous_calls.append(("call-post-consistent:%s@%s" % (f.key, self.site(e)),
                                       "the postcondition assumed for the call of %s contradicts the caller's state on this path "
                                       "(stale frame / contradictory contract): everything after the call would verify vacuously" % f.key))

    def apply_modifies(self, m, f, post, st):
        if m["kind"] == "param-region":
            names = self.param_names(f)
            nm = [k for k, v in names.items() if v == m["index"]][0]
            obj = self.param_obj(f, nm)
            sl = post.vars[obj]
            if isinstance(sl, PtrV) and sl.elem.under().k != "struct":
                # pointer parameter: the pointee may change
                lv = HeapLV(sl.oid, sl.elem, None, sl.elem)
                self.frame_obj_write(st, sl.oid, sl.elem, None)
                saved = self.frame_spec
                self.frame_spec = None
                v = self.fresh_value(sl.elem, "%s@call" % nm)
                self.type_facts(st, v, sl.elem, param=False)
                lv.set(self, post, v)
                self.frame_spec = saved
                return
            if not isinstance(sl, SliceV):
                raise Unsupported("modifies of non-slice parameter")
            if sl.lv is not None:
                a = sl.lv.get(self, st)
                sl.lv.set(self, st, ArrV(a.n, a.elem, term=self.fresh("arr@call", a.term.sort())))
                return
            self.frame_region_write(st, sl.rid, None)
            for i, (_, srt) in enumerate(leaves(sl.elem)):
                key = self.mem_key(sl.elem, i, srt)
                mm = self.mem_arr(post, key, srt)
                post.mem[key] = z3.Store(mm, sl.rid, self.fresh("reg@call", z3.ArraySort(IS, srt)))
        elif m["kind"] == "field":
            tn, fn = m["type"], m["field"]
            via = m.get("via")
            names = self.param_names(f)
            prefix = tn + "." + fn + "#"
            t = None
            oid = None
            if via in names:
                pv = post.vars.get(self.param_obj(f, via))
                if isinstance(pv, PtrV):
                    oid = pv.oid
                    t = pv.elem
            if oid is not None:
                ft = [x for x in t.fields() if x[0] == fn][0][1]
                lv = self.field_lv(pv, t, fn, ft)   # (an interior pointer addresses the root object's cells)
                self.frame_obj_write(st, oid, lv.owner, lv.name)
                if ft.under().k == "slice" and m.get("contents"):
                    cur = lv.get(self, post)
                    self.frame_region_write(st, cur.rid, None)
                    for i_, (_, srt_) in enumerate(leaves(ft.elem())):
                        key_ = self.mem_key(ft.elem(), i_, srt_)
                        mm_ = self.mem_arr(post, key_, srt_)
                        post.mem[key_] = z3.Store(mm_, cur.rid, self.fresh("reg@callfield", z3.ArraySort(IS, srt_)))
                elif ft.under().k == "slice" and is_scalar_type(ft.elem()):
                    # the callee may append in place: the array the field points to may change beyond the current length
                    cur = lv.get(self, post)
                    srt = leaves(ft.elem())[0][1]
                    key = self.mem_key(ft.elem(), 0, srt)
                    mm = self.mem_arr(post, key, srt)
                    oldarr = z3.Select(mm, cur.rid)
                    hv = self.fresh("reg@callfield", z3.ArraySort(IS, srt))
                    pq = z3.BitVec("p", IDX_BITS)
                    self.facts.append(z3.ForAll([pq], z3.Implies(pq < cur.off + cur.ln, z3.Select(hv, pq) == z3.Select(oldarr, pq))))
                    self.frame_region_write(st.fork(zand(st.pc, cur.cap > cur.ln)), cur.rid, cur.off + cur.ln)
                    post.mem[key] = z3.Store(mm, cur.rid, hv)
                saved = self.frame_spec
                self.frame_spec = None
                v = self.fresh_value(ft, "%s.%s@call" % (via, fn))
                self.type_facts(st, v, ft, param=False)
                lv.set(self, post, v)
                self.frame_spec = saved
            else:
                for key in list(post.heap):
                    if key.startswith(prefix):
                        post.heap[key] = self.fresh("heap@call", post.heap[key].sort())

    def param_obj(self, f, name):
        node = f.node
        if node.get("Recv") and node["Recv"].get("List"):
            for nm in node["Recv"]["List"][0].get("Names") or []:
                if nm["Name"] == name:
                    return nm["obj"]
        for fld in node["Type"]["Params"].get("List") or []:
            for nm in fld.get("Names") or []:
                if nm["Name"] == name:
                    return nm["obj"]
        raise Unsupported("no parameter %s in %s" % (name, f.full))

    def record_call_values(self, st, short, argvals, argtypes):
        """Ghost record of the arguments of the LAST call of an abstracted operation (read by zzArg in contracts)."""
        if self.spec:
            return
        for i, (v, t) in enumerate(zip(argvals, argtypes)):
            try:
                terms = flatten(v, t)
            except Unsupported:
                continue
            self.arg_types[(short, i)] = t
            for k_, tm in enumerate(terms):
                st.ghost["arg:%s:%d:%d" % (short, i, k_)] = tm

    def unknown_call(self, callee, e, st, evaluated=False, argvals=None, argtypes=None):
        """No contract and no model: results are unconstrained; the callee is assumed not to write caller-visible memory."""
        short = self.prog.short(callee)
        if not evaluated:
            argvals, argtypes = [], []
            for a in (e.get("Args") or []):
                try:
                    argvals.append(self.ev(a, st))
                    argtypes.append(self.T(a))
                except Unsupported:
                    pass
        if argvals is not None and argtypes is not None and len(argvals) == len(argtypes):
            self.record_call_values(st, short, argvals, argtypes)
        fun = e.get("Fun") or {}
        if fun.get("k") == "SelectorExpr" and (fun.get("sel") or {}).get("kind") == "method" and not self.spec:
            try:
                rv = self.ev(fun["X"], st)
                rt_ = self.T(fun["X"])
                for k_, tm in enumerate(flatten(rv, rt_)):
                    st.ghost["recv:%s:%d" % (short, k_)] = tm
                self.arg_types[(short, "recv")] = rt_
            except Unsupported:
                pass
        self.trace_event(st, short)
        self.assumptions.add("call to %s: no contract; result unconstrained, assumed to terminate without panic and to write no caller-visible memory" % short)
        t = self.T(e) if "t" in e else None
        if t is None:
            return TupleV([])
        u = t.under()
        if u.k == "tuple":
            vals = []
            for el in u.d.get("elems") or []:
                et = self.prog.types[el["t"]]
                v = self.fresh_value(et, "u")
                self.type_facts(st, v, et, param=False)
                vals.append(v)
            return TupleV(vals)
        v = self.fresh_value(t, "u")
        self.type_facts(st, v, t, param=False)
        if not self.spec:
            try:
                for k_, tm in enumerate(flatten(v, t)):
                    st.ghost["ret:%s:%d" % (short, k_)] = tm
                self.arg_types[(short, "ret")] = t
            except Unsupported:
                pass
        return v

    def iface_contract(self, callee):
        """Contract block `//@ iface T.M` of an interface method, looked up by its callee key pkg.(T).M."""
        i = callee.find(".(")
        if i < 0:
            return None
        pkg = self.prog.packages.get(callee[:i])
        if pkg is None:
            return None
        return pkg.contracts.get(callee[i + 1:])

    def method_of(self, dt, mname):
        """(Func, index path) of method mname in the method set of dynamic type dt, if its body is loaded."""
        base = dt
        if base.k == "ptr":
            base = self.prog.types[base.d["elem"]]
        while base.k == "alias":
            base = self.prog.types[base.d["under"]]
        ms = base.d.get("mset") or {}
        ent = ms.get(mname)
        if ent is None:
            return None, None
        if ent.get("ptrrecv") and dt.under().k != "ptr":
            return None, None
        return self.prog.funcs.get(ent["key"]), ent["index"]

    def adjust_receiver(self, cur, cur_t, path, rt, st, site_node):
        want_ptr = rt.under().k == "ptr"
        for i in path:
            if cur_t.under().k == "ptr":
                stype = cur_t.elem()
                name, ft, _ = stype.fields()[i]
                if ft.under().k == "struct":
                    root = getattr(cur, "root", None) or (stype, ())
                    cur = PtrV(cur.oid, ft, root=(root[0], root[1] + (name,)))
                    cur_t = self.ptr_type(ft)
                else:
                    cur = self.field_lv(cur, stype, name, ft).get(self, st)
                    cur_t = ft
            else:
                name, ft, _ = cur_t.fields()[i]
                cur = cur.f[name]
                cur_t = ft
        have_ptr = cur_t.under().k == "ptr"
        if want_ptr == have_ptr:
            return cur
        if have_ptr and not want_ptr:
            return self.deref_lv(cur, rt).get(self, st)
        raise Unsupported("address of value receiver in devirtualised call")

    def iface_call(self, callee, e, st):
        fun = e["Fun"]
        while fun["k"] == "ParenExpr":
            fun = fun["X"]
        recv = self.ev(fun["X"], st)
        mname = callee.rsplit(".", 1)[1]
        sigt = self.T(fun)
        args = self.eval_args(e, sigt, st)
        if not isinstance(recv, IfaceV):
            return self.unknown_call(callee, e, st, evaluated=True)
        self.oblige(st, "safety", "nil-iface@%s" % self.site(e), recv.tag != rid(0), e.get("ln"), "method call on nil interface")
        tag = z3.simplify(recv.tag)
        if z3.is_bv_value(tag) and 0 < tag.as_long() <= len(self.prog.types):
            dt = self.prog.types[tag.as_long() - 1]
            f, path = self.method_of(dt, mname)
            if f is not None:
                rt = self.T(f.node["Recv"]["List"][0]["Type"])
                rv = self.adjust_receiver(self.unbox(recv, dt, st), dt, path[:-1], rt, st, e)
                return self.invoke(f, [rv] + args, st, e)
        sigd = sigt.under().d
        ptypes_ = [self.prog.types[p_["t"]] for p_ in sigd.get("params") or []]
        if callee.endswith("context.(Context).Err") and not self.spec:
            self.models_used.add("context.Context: Err() is non-nil once a receive from Done() has succeeded")
            out = self.unknown_call(callee, e, st, evaluated=True, argvals=args, argtypes=ptypes_)
            arr = st.ghost.get("ctxdone")
            if arr is not None and isinstance(out, IfaceV):
                self.assume(st, z3.Implies(z3.Select(arr, recv.oid), out.tag != rid(0)))
            return out
        c = self.iface_contract(callee)
        if c is not None and "dispatch" in c.flags:
            # closed set of implementations: case split on the dynamic type, each case against that method's contract
            names = [x.strip() for x in c.flags["dispatch"].split(",") if x.strip()]
            pkgpath = callee[:callee.find(".(")]
            outs, conds = [], []
            rest = st.fork()
            rtypes = [self.prog.types[r_["t"]] for r_ in sigd.get("results") or []]
            for nm in names:
                want = ("*" + pkgpath + "." + nm[1:]) if nm.startswith("*") else (pkgpath + "." + nm)
                dt = None
                for tt in self.prog.types:
                    if tt is not None and tt.s == want:
                        dt = tt
                        break
                if dt is None:
                    raise Unsupported("dispatch type %s not found" % want)
                f, path = self.method_of(dt, mname)
                if f is None:
                    raise Unsupported("dispatch: %s has no method %s" % (want, mname))
                cond = recv.tag == rid(self.type_tag(dt))
                cst = st.fork(zand(st.pc, cond))
                rt_ = self.T(f.node["Recv"]["List"][0]["Type"])
                rv = self.adjust_receiver(self.unbox(recv, dt, cst), dt, path[:-1], rt_, cst, e)
                val = self.invoke(f, [rv] + args, cst, e)
                outs.append((cond, cst, val))
                rest.pc = zand(rest.pc, znot(cond))
            other = self.unknown_call(callee, e, rest, evaluated=True, argvals=args, argtypes=ptypes_)
            merged_state = rest
            result = other
            for cond, cst, val in reversed(outs):
                if len(rtypes) == 1:
                    result = ite_value(cond, val, result, rtypes[0])
                elif len(rtypes) > 1:
                    result = TupleV([ite_value(cond, a_, b_, t_) for a_, b_, t_ in zip(val.items, result.items, rtypes)])
                pc0 = st.pc
                merged_state = self.merge(cst, merged_state)
                merged_state.pc = pc0
            st.assign_from(merged_state)
            return result
        if c is not None:
            stub = None
            if "stub" in c.flags:
                stub = self.prog.funcs.get(callee[:callee.find(".(")] + "." + c.flags["stub"].strip())
                if stub is None:
                    raise Unsupported("interface contract stub %s not found" % c.flags["stub"])
                self.called_contracts.add(callee)
            if "pure" in c.flags:
                # deterministic, memory-silent method: an uninterpreted function of (receiver identity, args),
                # constrained by the stub contract's postconditions when one is given
                out = self.pure_iface(callee, recv, args, sigt, st)
                if stub is not None and not self.spec:
                    self.assume_stub_post(stub, [recv] + args, out, st)
                return out
            if stub is not None:
                return self.modular_call(stub, e, st, [recv] + args)
        return self.unknown_call(callee, e, st, evaluated=True, argvals=args, argtypes=ptypes_)

    def assume_stub_post(self, f, vals, out, st):
        c = f.contract
        env = State()
        env.mem, env.heap, env.ghost, env.pc = st.mem, st.heap, st.ghost, st.pc
        self.bind_values(f, vals, env)
        pre = env.fork()
        results = list(out.items) if isinstance(out, TupleV) else [out]
        j = 0
        for fld in (f.node["Type"].get("Results") or {}).get("List") or []:
            for nm in fld.get("Names") or []:
                if nm["Name"] != "_":
                    env.vars[nm["obj"]] = results[j]
                j += 1
        for cl in c.of("ensures"):
            if cl.get("canary"):
                continue
            self.assume(st, self.eval_clause(cl, env, results=results, old=pre))

    def pure_iface(self, callee, recv, args, sigt, st):
        sig = sigt.under().d
        ptypes = [self.prog.types[p["t"]] for p in sig.get("params") or []]
        flat = [recv.tag, recv.oid]
        for v, t in zip(args, ptypes):
            flat.extend(flatten(v, t))
        rtypes = [self.prog.types[r["t"]] for r in sig.get("results") or []]
        self.assumptions.add("interface method %s is a deterministic function of the receiver identity and its arguments that writes no memory "
                             "(receivers are immutable after construction, property C12)" % self.prog.short(callee))
        outs = []
        for ri, rt in enumerate(rtypes):
            terms = []
            for li, (_, srt) in enumerate(leaves(rt)):
                fn = z3.Function("pure_%s#%d.%d" % (self.prog.short(callee), ri, li), *([x.sort() for x in flat] + [srt]))
                terms.append(fn(*flat))
            v, _ = unflatten(rt, terms)
            self.type_facts(st, v, rt, param=False)
            outs.append(v)
        return outs[0] if len(outs) == 1 else TupleV(outs)

    # ------------------------------------------------------------ concurrency stubs (layer 4)
    def trace_event(self, st, name, node=None):
        """Ghost call counter of an abstracted operation (DESIGN.md 3.3.6): contracts read it with zzCalls("name")."""
        if self.spec:
            return
        key = "ev:" + name
        cur = st.ghost.get(key)
        if cur is None:
            cur = z3.BitVecVal(0, 64)
        if name.startswith("select.arm:"):
            # wait-set markers are set-once (a select in a loop re-arms the same communications)
            st.ghost[key] = z3.BitVecVal(1, 64)
            self.events_seen.add(name)
            return
        st.ghost[key] = cur + z3.BitVecVal(1, 64)
        clk = st.ghost.get("clock")
        if clk is None:
            clk = z3.BitVecVal(0, 64)
        st.ghost["clock"] = clk + z3.BitVecVal(1, 64)
        st.ghost["seq:" + name] = st.ghost["clock"]
        self.events_seen.add(name)

    def chan_recv(self, e, st, commaok=False):
        """A receive may deliver any value of the element type (other goroutines are not modelled); with the
        two-result form the channel may also be closed."""
        ch = e["X"]
        ct = self.T(ch)
        try:
            self.ev(ch, st)
        except Unsupported:
            pass
        et = ct.elem()
        v = self.fresh_value(et, "recv")
        self.type_facts(st, v, et, param=False)
        # context.Context: a receive from ctx.Done() means the context is cancelled, so ctx.Err() is non-nil afterwards
        if ch.get("k") == "CallExpr" and (ch.get("callee") or "").endswith("context.(Context).Done") and not self.spec:
            try:
                cx = self.ev(ch["Fun"]["X"], st)
                arr = st.ghost.get("ctxdone")
                if arr is None:
                    arr = z3.K(RS, FALSE)
                st.ghost["ctxdone"] = z3.Store(arr, cx.oid, TRUE)
            except (Unsupported, KeyError, AttributeError):
                pass
        inv = self.chan_invariant(et)
        if inv is not None and not self.spec:
            # declared channel invariant: every send site proves it, every receive may assume it
            self.spec += 1
            try:
                self.assume(st, self.inline_call(inv, e, st, [v]))
            finally:
                self.spec -= 1
        self.trace_event(st, "chan.recv")
        if not getattr(self, "in_comm", 0):
            self.bare_block(e, st, "receive")
        if commaok:
            return v, self.fresh("recvok", z3.BoolSort())
        return v

    def comm_target(self, comm):
        if comm is None:
            return None
        if comm["k"] == "SendStmt":
            return comm["Chan"]
        if comm["k"] == "ExprStmt" and comm["X"].get("k") == "UnaryExpr":
            return comm["X"]["X"]
        if comm["k"] == "AssignStmt" and comm["Rhs"] and comm["Rhs"][0].get("k") == "UnaryExpr":
            return comm["Rhs"][0]["X"]
        return None

    def check_waits(self, s, st, clauses):
        """`waits [label] x` (x a channel or a context): every select of this call that can block (no default) also waits on x,
        so whoever closes x / cancels it releases the call wherever it is parked."""
        c = self.cur_func.contract if self.cur_func is not None else None
        if c is None or self.spec or not c.of("waits"):
            return
        if any(cc.get("Comm") is None for cc in clauses):
            return  # a select with a default clause never parks
        ctxs, chans = [], []
        for cc in clauses:
            tgt = self.comm_target(cc.get("Comm"))
            if tgt is None:
                continue
            try:
                if tgt.get("k") == "CallExpr" and (tgt.get("callee") or "").endswith("context.(Context).Done"):
                    ctxs.append(self.ev(tgt["Fun"]["X"], st).oid)
                elif tgt.get("k") in ("Ident", "SelectorExpr"):
                    v = self.ev(tgt, st)
                    if isinstance(v, OpaqueV):
                        chans.append(v.term)
            except (Unsupported, AttributeError):
                pass
        for cl in c.of("waits"):
            try:
                v = self.eval_clause(cl, st, boolean=False)
            except ClauseError as ex:
                self.oblige(st, "waits", "%s@%s" % (cl["label"], self.site(s)), FALSE, cl.get("ln"), str(ex))
                continue
            if isinstance(v, IfaceV):
                g = zor(*[x == v.oid for x in ctxs]) if ctxs else FALSE
            elif isinstance(v, OpaqueV):
                g = zor(*[x == v.term for x in chans if x.sort() == v.term.sort()]) if chans else FALSE
            else:
                raise Unsupported("waits clause of this type")
            self.oblige(st, "waits", "%s@%s" % (cl["label"], self.site(s)), g, cl.get("ln"), "every parking select waits on: " + cl["text"])

    def bare_block(self, s, st, what):
        """A channel operation outside a select parks with no release: not allowed in a function that declares `waits`."""
        c = self.cur_func.contract if self.cur_func is not None else None
        if c is None or self.spec or not c.of("waits"):
            return
        self.oblige(st, "waits", "bare-%s@%s" % (what, self.site(s)), FALSE, s.get("ln"),
                    "a channel %s outside a select cannot be released by the declared `waits` conditions" % what)

    def record_armed(self, st, tgt):
        """The set of contexts (through ctx.Done()) and channels a select of this call waits on, by value."""
        if self.spec:
            return
        try:
            if tgt.get("k") == "CallExpr" and (tgt.get("callee") or "").endswith("context.(Context).Done"):
                cx = self.ev(tgt["Fun"]["X"], st)
                arr = st.ghost.get("armedctx")
                if arr is None:
                    arr = z3.K(RS, FALSE)
                st.ghost["armedctx"] = z3.Store(arr, cx.oid, TRUE)
                return
            if tgt.get("k") not in ("Ident", "SelectorExpr"):
                return
            v = self.ev(tgt, st)
            if isinstance(v, OpaqueV) and v.term.sort() == RS:
                arr = st.ghost.get("armedch")
                if arr is None:
                    arr = z3.K(RS, FALSE)
                st.ghost["armedch"] = z3.Store(arr, v.term, TRUE)
        except (Unsupported, KeyError, AttributeError):
            pass

    def expr_text(self, e):
        k = e.get("k")
        if k == "Ident":
            return e.get("Name", "?")
        if k == "SelectorExpr":
            return self.expr_text(e["X"]) + "." + e["Sel"]["Name"]
        if k == "CallExpr":
            return self.expr_text(e["Fun"]) + "()"
        if k == "ParenExpr":
            return self.expr_text(e["X"])
        if k == "StarExpr":
            return "*" + self.expr_text(e["X"])
        return "?"

    def chan_invariant(self, et):
        """Spec function zzChanInv_<ElemType>(v) of the element type's package, if the contract file declares one."""
        base = et
        if base.k == "ptr":
            base = base.elem()   # chan *T: the invariant function zzChanInv_T takes the pointer
        nm = base.name() if base.k == "named" else None
        if not nm or "." not in nm:
            return None
        pk, short = nm.rsplit(".", 1)
        return self.prog.funcs.get(pk + ".zzChanInv_" + short)

    def chan_send(self, s, st):
        val = None
        try:
            self.ev(s["Chan"], st)
            val = self.ev(s["Value"], st)
        except Unsupported:
            pass
        ct = self.T(s["Chan"])
        inv = self.chan_invariant(ct.elem()) if ct.under().k == "chan" else None
        if inv is not None and val is not None and not self.spec:
            self.spec += 1
            try:
                g = self.inline_call(inv, s, st, [val])
            finally:
                self.spec -= 1
            self.oblige(st, "chaninv", "send@%s" % self.site(s), g, s.get("ln"), "value sent on the channel satisfies the declared channel invariant")
        self.trace_event(st, "chan.send")
        if not getattr(self, "in_comm", 0):
            self.bare_block(s, st, "send")
        return st

    def select_stmt(self, s, st):
        """select: any ready case may be taken (nondeterministic choice); with a default clause the default may be
        taken too.  Blocking forever is not a return path."""
        from .stmt import _LoopCtx
        fr = self.frames[-1]
        ctx = _LoopCtx("select")
        ctx.label = getattr(self, "pending_label", None)
        self.pending_label = None
        fr.loops.append(ctx)
        outs = []
        clauses = s["Body"]["List"]
        choice = self.fresh("select", IS)
        # every communication of an executed select is armed at once: record what the call waits on
        for cc in clauses:
            comm = cc.get("Comm")
            if comm is None:
                self.trace_event(st, "select.arm:default")
                continue
            tgt = None
            if comm["k"] == "SendStmt":
                tgt = comm["Chan"]
            elif comm["k"] == "ExprStmt" and comm["X"].get("k") == "UnaryExpr":
                tgt = comm["X"]["X"]
            elif comm["k"] == "AssignStmt" and comm["Rhs"] and comm["Rhs"][0].get("k") == "UnaryExpr":
                tgt = comm["Rhs"][0]["X"]
            if tgt is not None:
                self.trace_event(st, "select.arm:" + self.expr_text(tgt))
                self.trace_event(st, "select.arm:any")
                self.record_armed(st, tgt)
        self.check_waits(s, st, clauses)
        for k, cc in enumerate(clauses):
            cst = st.fork(zand(st.pc, choice == idx(k)))
            comm = cc.get("Comm")
            if comm is not None:
                kk = comm["k"]
                self.in_comm = getattr(self, "in_comm", 0) + 1
                try:
                    if kk == "SendStmt":
                        cst = self.chan_send(comm, cst)
                    elif kk == "ExprStmt":
                        self.ev(comm["X"], cst)
                    elif kk == "AssignStmt":
                        cst = self.ex(comm, cst)
                    else:
                        raise Unsupported("select comm " + kk)
                finally:
                    self.in_comm -= 1
            outs.append(self.ex_block(cc.get("Body"), cst) if cst is not None else None)
        fr.loops.pop()
        return self.join(outs + ctx.breaks)

    def map_lookup(self, e, st):
        raise Unsupported("map lookup")


class ClauseError(Exception):
    def __init__(self, cl):
        Exception.__init__(self, "contract clause does not bind: %s (%s)" % (cl.get("text"), cl.get("err")))
        self.cl = cl
