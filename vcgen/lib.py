"""Trusted models of library functions (DESIGN.md 3.2). Every model used is listed in the evidence."""
import z3

from .values import *  # noqa
from .values import _byte_type
from .sym import (TRUE, FALSE, RS, IS, zand, zor, znot, zimp, State, HeapLV)
from .expr import ERR_TAG

NUMERR_TAG = 0x7FFF0002

BE = "encoding/binary.(bigEndian)."
LE = "encoding/binary.(littleEndian)."


class LibMixin:
    def lib_effects(self, callee, node):
        """Argument expressions whose backing regions a modelled library call writes (None: not a library model)."""
        if callee.startswith(BE) or callee.startswith(LE):
            m = callee.rsplit(".", 1)[1]
            if m.startswith("Put") or m.startswith("Append"):
                return [node["Args"][0]]
            return []
        if callee in LIB_PURE:
            return []
        return None

    def lib_call(self, callee, e, st):
        args = e.get("Args") or []
        if callee.startswith(BE) or callee.startswith(LE):
            big = callee.startswith(BE)
            m = callee.rsplit(".", 1)[1]
            self.models_used.add("encoding/binary.%s.%s" % ("BigEndian" if big else "LittleEndian", m))
            if m in ("Uint16", "Uint32", "Uint64"):
                n = int(m[4:]) // 8
                b = self.ev(args[0], st)
                self.oblige(st, "safety", "index@%s" % self.site(e), b.ln >= idx(n), e.get("ln"), "binary.%s needs %d bytes" % (m, n))
                bs = [self.slice_get(st, b, idx(i)) for i in range(n)]
                if not big:
                    bs.reverse()
                return z3.Concat(*bs)
            if m in ("PutUint16", "PutUint32", "PutUint64"):
                n = int(m[7:]) // 8
                b = self.ev(args[0], st)
                v = self.ev(args[1], st)
                self.oblige(st, "safety", "index@%s" % self.site(e), b.ln >= idx(n), e.get("ln"), "binary.%s needs %d bytes" % (m, n))
                for i in range(n):
                    sh = (n - 1 - i) * 8 if big else i * 8
                    self.slice_set(st, b, idx(i), z3.Extract(sh + 7, sh, v))
                return TupleV([])
            if m in ("AppendUint16", "AppendUint32", "AppendUint64"):
                n = int(m[10:]) // 8
                v = self.ev(args[1], st)
                bt = _byte_type(self.prog)
                byte_nodes = []
                vals = []
                for i in range(n):
                    sh = (n - 1 - i) * 8 if big else i * 8
                    vals.append(z3.Extract(sh + 7, sh, v))
                return self.append_values(e, args[0], vals, st)
        if callee in ("errors.New", "fmt.Errorf"):
            self.models_used.add(callee + " (returns a fresh non-nil error; %w operands recorded for errors.Is)")
            wrapped = []
            for a in args[1:] if callee == "fmt.Errorf" else []:
                try:
                    v = self.ev(a, st)
                except Unsupported:
                    continue
                if isinstance(v, IfaceV):
                    wrapped.append(v)
            o = self.fresh_rid()
            ev_ = IfaceV(rid(ERR_TAG), o)
            self.wraps[o.as_long()] = wrapped
            return ev_
        if callee in ("strconv.ParseInt", "strconv.ParseUint", "strconv.ParseFloat", "strconv.ParseBool", "strconv.Atoi"):
            # deterministic function of the (immutable) string it is given; the numeric semantics of the text is trusted
            self.models_used.add(callee + " (result is an uninterpreted, deterministic function of the string value and the base/bitSize arguments; "
                                 "err == nil or a *strconv.NumError)")
            sv = self.ev(args[0], st)
            extra = []
            for a in args[1:]:
                x = self.ev(a, st)
                extra.append(x)
            rt = self.T(e).under().d.get("elems")
            vt = self.prog.types[rt[0]["t"]]
            dom = [RS, IS, IS] + [x.sort() for x in extra]
            key = callee.replace("strconv.", "")
            vs = scalar_sort(vt)
            fv = z3.Function("lib_%s_val" % key, *(dom + [vs]))
            fe = z3.Function("lib_%s_err" % key, *(dom + [RS]))
            argsv = [sv.rid, sv.off, sv.ln] + extra
            val = fv(*argsv)
            eo = fe(*argsv)
            # error object: 0 = nil; otherwise a pre-existing-style id (never equal to objects allocated here)
            self.assume(st, z3.ULT(eo, rid(FRESH_BASE)))
            err = IfaceV(z3.If(eo == rid(0), rid(0), rid(NUMERR_TAG)), eo)
            return TupleV([val, err])
        if callee == "errors.As":
            self.models_used.add("errors.As (deterministic in the error identity; on success stores a non-nil pointer determined by the error)")
            ev_ = self.ev(args[0], st)
            tgt = self.ev(args[1], st)   # pointer to the target variable
            tt = self.T(args[1]).elem()
            ok = z3.Function("lib_errors_as_%d" % tt.id, RS, RS, z3.BoolSort())(ev_.tag, ev_.oid)
            ok = z3.And(ev_.tag != rid(0), ok)
            if tt.under().k != "ptr":
                raise Unsupported("errors.As target of non-pointer type")
            found = z3.Function("lib_errors_as_val_%d" % tt.id, RS, RS, RS)(ev_.tag, ev_.oid)
            self.assume(st, z3.And(found != rid(0), z3.ULT(found, rid(FRESH_BASE))))
            lv = self.deref_lv(tgt, tt)
            cur = lv.get(self, st)
            saved = self.frame_spec
            self.frame_spec = None
            lv.set(self, st, PtrV(z3.If(ok, found, cur.oid), tt.elem()))
            self.frame_spec = saved
            return ok
        if callee == "errors.Join":
            self.models_used.add("errors.Join (nil iff every argument is nil, otherwise a fresh non-nil error wrapping the non-nil arguments)")
            et = self.prog.types[self.T(e).id]
            vals = []
            for a in args:
                v = self.ev_assign(a, self.T(e), st)
                if isinstance(v, IfaceV):
                    vals.append(v)
            o = self.fresh_rid()
            self.wraps[o.as_long()] = list(vals)
            anyerr = zor(*[v.tag != rid(0) for v in vals]) if vals else FALSE
            return IfaceV(z3.If(anyerr, rid(ERR_TAG), rid(0)), z3.If(anyerr, o, rid(0)))
        if callee == "errors.Is":
            self.models_used.add("errors.Is (identity or recorded %w chain)")
            a = self.ev(args[0], st)
            b = self.ev(args[1], st)
            return self.errors_is(a, b)
        if callee in ("bytes.Clone", "slices.Clone"):
            self.models_used.add(callee)
            v = self.ev(args[0], st)
            if v.lv is not None:
                raise Unsupported("Clone of array-backed slice")
            r = self.alloc_slice(st, v.elem, v.ln, v.ln, zero=False)
            arrs = []
            for (_, srt, a) in self.region_arrays(st, v):
                zero = FALSE if srt == z3.BoolSort() else z3.BitVecVal(0, srt.size())
                arrs.append(self.memcpy(z3.K(IS, zero), idx(0), v.ln, a, v.off))
            saved = self.frame_spec
            self.frame_spec = None
            self.region_store(st, r, arrs)
            self.frame_spec = saved
            isnil = v.rid == rid(0)
            # Clone(nil) == nil
            return SliceV(z3.If(isnil, rid(0), r.rid), idx(0), v.ln, z3.If(isnil, idx(0), v.ln), v.elem)
        if callee == "slices.Grow":
            self.models_used.add("slices.Grow (same length and contents, cap >= len+n; reallocates when needed; panics on n < 0)")
            v = self.ev(args[0], st)
            n = self.index_value(args[1], st)
            if v.lv is not None:
                raise Unsupported("Grow of array-backed slice")
            self.oblige(st, "safety", "grow-nonneg@%s" % self.site(e), n >= 0, e.get("ln"), "slices.Grow: negative n panics")
            need = v.ln + n
            inplace = z3.simplify(need <= v.cap)
            F = self.fresh_rid()
            newcap = self.fresh("cap", IS)
            self.assume(st, z3.And(newcap >= need, newcap <= idx(MAXLEN)))
            self.oblige(st, "safety", "append-len@%s" % self.site(e), need <= idx(MAXLEN), e.get("ln"), "grown length within the address space")
            for i, (_, srt) in enumerate(leaves(v.elem)):
                key = self.mem_key(v.elem, i, srt)
                m = self.mem_arr(st, key, srt)
                old = z3.Select(m, v.rid)
                # the grown copy keeps the old contents in [off, off+len); its spare capacity is unspecified
                spare = self.fresh("grow@spare", z3.ArraySort(IS, srt))
                p = z3.BitVec("p", IDX_BITS)
                zero = FALSE if srt == z3.BoolSort() else z3.BitVecVal(0, srt.size())
                self.assume(st, z3.ForAll([p], z3.Select(spare, p) == z3.If(z3.And(p >= v.off, p < v.off + v.ln), z3.Select(old, p), zero)))
                st.mem[key] = z3.Store(m, F, spare)
            st.ghost["alloc"] = st.ghost.get("alloc", z3.BitVecVal(0, 64)) + z3.If(inplace, idx(0), newcap * idx(self.elem_size(v.elem)))
            return SliceV(z3.If(inplace, v.rid, F), v.off, v.ln, z3.If(inplace, v.cap, newcap), v.elem)
        if callee.startswith("strings.(*Builder)."):
            m = callee.rsplit(".", 1)[1]
            self.models_used.add("strings.Builder.%s (contents not modelled; Grow(n) requests n bytes and panics on n < 0)" % m)
            vals = []
            for a in args:
                try:
                    vals.append(self.ev(a, st))
                except Unsupported:
                    vals.append(None)
            if m == "Grow":
                n = vals[0]
                self.oblige(st, "safety", "grow-nonneg@%s" % self.site(e), n >= 0, e.get("ln"), "strings.Builder.Grow: negative count panics")
                self.alloc_obligation(st, e, n)
                return TupleV([])
            t = self.T(e) if "t" in e else None
            if t is None or (t.under().k == "tuple" and not t.under().d.get("elems")):
                return TupleV([])
            if t.under().k == "tuple":
                out = []
                for el in t.under().d.get("elems"):
                    et = self.prog.types[el["t"]]
                    v = self.fresh_value(et, "sb")
                    self.type_facts(st, v, et, param=False)
                    out.append(v)
                return TupleV(out)
            v = self.fresh_value(t, "sb")
            self.type_facts(st, v, t, param=False)
            return v
        if callee in ("net.(Conn).Read", "io.(Reader).Read"):
            self.models_used.add("%s (io.Reader contract: returns 0 <= n <= len(p), writes only p[:len(p)]; trusted)" % callee)
            pv = self.ev(args[0], st)
            if not isinstance(pv, SliceV) or pv.lv is not None:
                return NotImplemented
            r = self.unknown_call(callee, e, st, evaluated=True, argvals=[pv], argtypes=[self.T(args[0])])
            n = r.items[0]
            self.assume(st, z3.And(n >= 0, n <= pv.ln))
            if not self.spec:
                st.ghost["ret:%s:0" % self.prog.short(callee)] = n
                self.arg_types[(self.prog.short(callee), "ret")] = self.int_type
            self.frame_region_write(st, pv.rid, pv.off)
            key = "bv8"
            m = self.mem_arr(st, key, z3.BitVecSort(8))
            old_arr = z3.Select(m, pv.rid)
            na = self.fresh("read@buf", z3.ArraySort(IS, z3.BitVecSort(8)))
            q = z3.BitVec("p", IDX_BITS)
            self.assume(st, z3.ForAll([q], z3.Implies(z3.Not(z3.And(q >= pv.off, q < pv.off + pv.ln)), z3.Select(na, q) == z3.Select(old_arr, q))))
            st.mem[key] = z3.Store(m, pv.rid, na)
            return r
        if callee in ("context.WithCancel", "context.WithTimeout", "context.WithDeadline", "context.WithCancelCause"):
            self.models_used.add("%s (returns a non-nil derived context and a non-nil cancel function; cancellation timing is not modelled)" % callee)
            for a in args:
                try:
                    self.ev(a, st)
                except Unsupported:
                    pass
            self.trace_event(st, callee)
            t = self.T(e)
            out = []
            for el in t.under().d.get("elems"):
                et = self.prog.types[el["t"]]
                v = self.fresh_value(et, "ctx")
                self.type_facts(st, v, et, param=False)
                if isinstance(v, IfaceV):
                    self.assume(st, v.tag != rid(0))
                elif isinstance(v, FuncV) and v.term is not None:
                    self.assume(st, v.term != z3.BitVecVal(0, v.term.size()) if z3.is_bv(v.term) else TRUE)
                out.append(v)
            return TupleV(out)
        if callee.startswith("sync.(*WaitGroup)."):
            # counted operation, also under a name that carries the field holding the WaitGroup (several groups per object)
            fx = e["Fun"].get("X") if e["Fun"].get("k") == "SelectorExpr" else None
            r = self.unknown_call(callee, e, st)
            if fx is not None and fx.get("k") == "SelectorExpr":
                self.trace_event(st, "%s:%s" % (self.prog.short(callee), fx["Sel"]["Name"]))
            return r
        if callee.startswith("sync.(*Mutex).") or callee.startswith("sync.(*RWMutex)."):
            self.models_used.add("sync.Mutex/RWMutex (mutual exclusion is not modelled: every shared read is arbitrary anyway)")
            if callee.endswith(".TryLock") or callee.endswith(".TryRLock"):
                return self.fresh("trylock", z3.BoolSort())   # may or may not succeed
            return TupleV([])
        if callee.startswith("sync/atomic."):
            m = callee.rsplit(".", 1)[1]
            self.models_used.add("sync/atomic %s (a load returns an arbitrary value: other goroutines may store at any time)" % callee.replace("sync/atomic.", ""))
            avs, ats = [], []
            for a in args:
                try:
                    avs.append(self.ev(a, st))
                    ats.append(self.T(a))
                except Unsupported:
                    pass
            fld = ""
            fx = e["Fun"].get("X") if e["Fun"].get("k") == "SelectorExpr" else None
            if fx is not None and fx.get("k") == "SelectorExpr":
                fld = ":" + fx["Sel"]["Name"]
            nm = "atomic." + m + fld
            if len(avs) == len(args) and not self.spec:
                self.record_call_values(st, nm, avs, ats)
            self.trace_event(st, nm)
            t = self.T(e) if "t" in e else None
            if t is None or (t.under().k == "tuple" and not t.under().d.get("elems")):
                return TupleV([])
            v = self.fresh_value(t, "atomic")
            self.type_facts(st, v, t, param=True)
            if not self.spec:
                try:
                    for k_, tm in enumerate(flatten(v, t)):
                        st.ghost["ret:%s:%d" % (nm, k_)] = tm
                    self.arg_types[(nm, "ret")] = t
                except Unsupported:
                    pass
            return v
        if callee == "sync.(*Once).Do":
            self.models_used.add("sync.Once.Do (runs f iff the once has not fired, then marks it fired; at-most-once is trusted)")
            fun = e["Fun"]
            lv = self.lvalue(fun["X"], st)
            from .sym import HeapLV as _H
            if not isinstance(lv, _H):
                raise Unsupported("sync.Once that is not a field of a heap object")
            key = "once:" + self.heap_key(lv.owner, lv.name)
            arr = st.heap.get(key)
            if arr is None:
                arr = z3.Array("H_" + key, RS, z3.BoolSort())
                st.heap[key] = arr
            fired = z3.Select(arr, lv.oid)
            fv = self.ev(args[0], st)
            run = st.fork(zand(st.pc, znot(fired)))
            if not z3.is_false(z3.simplify(run.pc)):
                if fv.kind == "lit":
                    self.inline_lit(fv, [], run, e)
                elif fv.kind == "bound":
                    self.call_bound(fv, [], run, e)
                else:
                    raise Unsupported("Once.Do of this function value")
                skip = st.fork(zand(st.pc, fired))
                pc = st.pc
                m = self.merge(run, skip)
                m.pc = pc
                st.assign_from(m)
            arr = st.heap.get(key)
            st.heap[key] = z3.Store(arr, lv.oid, TRUE)
            return TupleV([])
        if callee in ("strings.IndexByte", "strings.LastIndexByte"):
            self.models_used.add(callee + " (first/last index of the byte, or -1)")
            sv = self.ev(args[0], st)
            c = self.ev(args[1], st)
            (_, _, a), = self.region_arrays(st, sv)
            r = self.fresh("idxb", IS)
            j = z3.BitVec("j", IDX_BITS)
            hit = z3.Select(a, sv.off + r) == c
            if callee == "strings.IndexByte":
                none_before = z3.ForAll([j], z3.Implies(z3.And(j >= 0, j < z3.If(r >= 0, r, sv.ln)), z3.Select(a, sv.off + j) != c))
            else:
                none_before = z3.ForAll([j], z3.Implies(z3.And(j > r, j < sv.ln), z3.Select(a, sv.off + j) != c))
            self.assume(st, z3.And(r >= idx(-1) if False else r >= z3.BitVecVal(-1, IDX_BITS), r < sv.ln,
                                     z3.Implies(r >= 0, hit), none_before))
            return r
        if callee == "strings.Index":
            self.models_used.add("strings.Index (result -1 or 0 <= r <= len(s)-len(sub); contents of the match are not modelled)")
            sv = self.ev(args[0], st)
            sub = self.ev(args[1], st)
            r = self.fresh("idxs", IS)
            self.assume(st, z3.And(r >= z3.BitVecVal(-1, IDX_BITS), r <= sv.ln, z3.Implies(r >= 0, r + sub.ln <= sv.ln)))
            return r
        if callee == "strings.HasPrefix":
            self.models_used.add("strings.HasPrefix (true implies len(s) >= len(prefix))")
            sv = self.ev(args[0], st)
            pre = self.ev(args[1], st)
            r = self.fresh("hasprefix", z3.BoolSort())
            self.assume(st, z3.Implies(r, sv.ln >= pre.ln))
            return r
        if callee == "strings.Fields":
            self.models_used.add("strings.Fields (fresh slice of at most len(s) non-empty substrings of s)")
            sv = self.ev(args[0], st)
            t = self.T(e)
            res = self.fresh_value(t, "fields")
            self.type_facts(st, res, t, param=False)
            k = z3.BitVec("k", IDX_BITS)
            arrs = self.region_arrays(st, res)   # leaves of string elem: rid, off, len
            (_, _, ar), (_, _, ao), (_, _, al) = arrs
            self.assume(st, z3.And(
                z3.UGE(res.rid, rid(FRESH_BASE)), res.off == idx(0), res.ln <= sv.ln, res.cap == res.ln,
                z3.ForAll([k], z3.Implies(z3.And(k >= 0, k < res.ln),
                                          z3.And(z3.Select(ar, k) == sv.rid, z3.Select(ao, k) >= sv.off, z3.Select(al, k) > 0,
                                                 z3.Select(ao, k) + z3.Select(al, k) <= sv.off + sv.ln)))))
            self.alloc_sites.append((e, res.ln, t.elem(), st.pc))
            self.count_alloc(st, res.ln, t.elem())
            return res
        if callee in ("strings.ToUpper", "strings.ToLower", "strings.TrimSpace"):
            self.models_used.add(callee + " (a string that is a deterministic function of the argument; contents not modelled)")
            sv = self.ev(args[0], st)
            key = callee.replace("strings.", "")
            fr_ = z3.Function("lib_%s_rid" % key, RS, IS, IS, RS)(sv.rid, sv.off, sv.ln)
            fo_ = z3.Function("lib_%s_off" % key, RS, IS, IS, IS)(sv.rid, sv.off, sv.ln)
            fl_ = z3.Function("lib_%s_len" % key, RS, IS, IS, IS)(sv.rid, sv.off, sv.ln)
            self.assume(st, z3.And(fo_ >= 0, fo_ <= idx(MAXLEN), fl_ >= 0, fl_ <= idx(MAXLEN), z3.ULT(fr_, rid(FRESH_BASE)),
                                     z3.Implies(fr_ == rid(0), fl_ == 0)))
            return SliceV(fr_, fo_, fl_, fl_, _byte_type(self.prog), isstr=True)
        if callee in ("fmt.Sprintf", "fmt.Sprint", "strconv.Quote", "strconv.Itoa"):
            self.models_used.add(callee + " (some string; contents not modelled)")
            for a in args:
                try:
                    self.ev(a, st)
                except Unsupported:
                    pass
            t = self.T(e)
            res = self.fresh_value(t, "str")
            self.type_facts(st, res, t, param=False)
            return res
        if callee in ("math.IsNaN", "math.IsInf"):
            self.models_used.add(callee + " (IEEE-754 classification)")
            x = self.ev(args[0], st)
            fx = z3.fpBVToFP(x, z3.Float64())
            if callee == "math.IsNaN":
                return z3.fpIsNaN(fx)
            sgn = self.ev(args[1], st)
            pos = z3.And(z3.fpIsInf(fx), z3.Not(z3.fpIsNegative(fx)))
            neg = z3.And(z3.fpIsInf(fx), z3.fpIsNegative(fx))
            return z3.Or(z3.And(sgn >= 0, pos), z3.And(sgn <= 0, neg))
        if callee in ("math.Float64bits", "math.Float64frombits", "math.Float32bits", "math.Float32frombits"):
            self.models_used.add(callee + " (identity on bit patterns)")
            return self.ev(args[0], st)
        return NotImplemented

    def append_values(self, e, base_node, vals, st):
        """append(base, vals...) for already-evaluated byte terms (used by binary.Append*)."""
        bt = _byte_type(self.prog)
        s = self.ev(base_node, st)
        if s.lv is not None:
            raise Unsupported("append to array-backed slice")
        if self.acc_mode and self.acc_decode(s.rid) is not None:
            return self.acc_append(s, vals)
        (_, _, oa), = self.region_arrays(st, s)
        W = oa
        for j, v in enumerate(vals):
            W = z3.Store(W, s.off + s.ln + idx(j), v)
        k = idx(len(vals))
        newlen = s.ln + k
        inplace = z3.simplify(newlen <= s.cap)
        F = self.fresh_rid()
        newcap = self.fresh("cap", IS)
        self.assume(st, z3.And(newcap >= newlen, newcap <= idx(MAXLEN)))
        self.oblige(st, "safety", "append-len@%s" % self.site(e), newlen <= idx(MAXLEN), e.get("ln"), "append result length within the address space")
        st.ghost["alloc"] = st.ghost.get("alloc", z3.BitVecVal(0, 64)) + z3.If(inplace, idx(0), newcap)
        if not z3.is_false(inplace):
            self.frame_region_write(st.fork(zand(st.pc, inplace)), s.rid, s.off + s.ln)
        m = self.mem_arr(st, "bv8", z3.BitVecSort(8))
        m = z3.Store(m, F, W)
        if not z3.is_false(inplace):
            m = z3.Store(m, s.rid, W if z3.is_true(inplace) else z3.If(inplace, W, oa))
        st.mem["bv8"] = m
        if z3.is_true(inplace):
            return SliceV(s.rid, s.off, newlen, s.cap, bt)
        return SliceV(z3.If(inplace, s.rid, F), s.off, newlen, z3.If(inplace, s.cap, newcap), bt)

    def errors_is(self, a, b):
        same = z3.And(a.tag == b.tag, a.oid == b.oid)
        alts = [same]
        if z3.is_bv_value(z3.simplify(a.oid)):
            for w in self.wraps.get(z3.simplify(a.oid).as_long(), []):
                alts.append(self.errors_is(w, b))
        elif not z3.is_bv_value(z3.simplify(a.oid)):
            f = z3.Function("errors_is", RS, RS, RS, RS, z3.BoolSort())
            alts.append(f(a.tag, a.oid, b.tag, b.oid))
        return zand(a.tag != rid(0), zor(*alts))


LIB_PURE = {"strings.IndexByte", "strings.LastIndexByte", "strings.Index", "strings.HasPrefix", "strings.Fields", "strings.ToUpper", "strings.ToLower", "strings.TrimSpace", "fmt.Sprintf", "fmt.Sprint", "strconv.Quote", "strconv.Itoa", "math.IsNaN", "math.IsInf", "errors.Join", "strconv.ParseInt", "strconv.ParseUint", "strconv.ParseFloat", "strconv.ParseBool", "strconv.Atoi", "errors.As", "slices.Grow", "sync.(*Once).Do", "errors.New", "fmt.Errorf", "errors.Is", "bytes.Clone", "slices.Clone", "math.Float64bits", "math.Float64frombits",
            "math.Float32bits", "math.Float32frombits"}
