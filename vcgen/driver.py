"""./check <property> quick|thorough  — regenerate every obligation of a property from /repo's working tree,
discharge them, replay counterexamples on the real code, write evidence, print VIOLATION / KNOWN-FINDING lines."""
import json
import multiprocessing
import os
import sys
import time
import traceback

import z3

from . import gast
from .values import Unsupported
from .verify import Verifier, build_vc
from .calls import ClauseError
from . import solve
from . import replay as replay_mod

ROOT = os.path.dirname(os.path.dirname(os.path.abspath(__file__)))
MOD = gast.MODPATH


def full_key(short):
    return MOD + "/" + short


def load_props(pid):
    with open(os.path.join(ROOT, "props", pid + ".json")) as f:
        return json.load(f)


def load_known():
    p = os.path.join(ROOT, "known_findings.json")
    if not os.path.exists(p):
        return []
    with open(p) as f:
        return json.load(f).get("findings", [])


_G = {}


def gen_one(short):
    """Generate the obligations of one function (runs in a forked worker; returns plain data)."""
    prog, cfg = _G["prog"], _G["cfg"]
    return _gen_function(prog, cfg, short, keep=False)


def _one_obligation(i):
    """VC text of obligation i of the current function; discharged on the spot unless it is kept for replay."""
    v, obs, short, keep = _G["cur"]
    ob = obs[i]
    hyps, pc, goal = build_vc(v, ob)
    base = {"name": ob.name, "kind": ob.kind, "func": short, "ln": ob.ln, "clause": ob.text, "canary": ob.canary}
    # cheap pre-filter: goals that already follow from the path condition alone (e.g. a per-type postcondition
    # on a path of another type) need no hypotheses and no external solver
    if ob.kind == "cover":
        base["expect"] = "sat"
    else:
        pre_s = z3.Solver()
        pre_s.set("timeout", 150)
        pre_s.add(pc)
        pre_s.add(z3.Not(goal))
        if pre_s.check() == z3.unsat:
            base["presolved"] = True
            return base
    text, fallback = solve.vc_texts(hyps, pc, goal)
    base["text"], base["fallback"] = text, fallback
    if keep:
        base["verifier"], base["ob"] = v, ob
        return base
    tq, tf, cross = _G.get("solve_params", (6.0, 20.0, False))
    base["result"] = solve.solve_text((ob.name, text, tq, tf, cross and ob.kind != "cover", fallback))
    base["text"], base["fallback"] = "", None   # do not ship megabytes of SMT text back to the parent
    base["solved_in_worker"] = True
    return base


def _gen_function(prog, cfg, short, keep, _retried=False):
    jobs = []
    meta = {"functions": [], "assumptions": set(), "models": set(), "bounded": set(), "summarised": set(),
            "contracts_used": set(), "trusted_contracts": []}
    full = full_key(short)
    f = prog.funcs.get(full)
    if f is None:
        jobs.append({"name": short + ":binding:function-exists", "kind": "binding", "status": "failed",
                     "detail": "function named in props/contracts does not exist in the source", "func": short})
        return jobs, meta
    if f.contract is not None and "trusted" in f.contract.flags:
        meta["trusted_contracts"].append(short)
        return jobs, meta
    v = Verifier(prog, cfg)
    t0 = time.time()
    try:
        obs = v.verify(f)
    except (Unsupported, ClauseError) as ex:
        if not _retried and not keep:
            # same second attempt as for failed obligations: helpers the executor abstracted so far are inlined,
            # unannotated loops unrolled
            tracked = set(v.tracked_events()) if hasattr(v, "tracked_events") else set()
            helpers = sorted(h for h in getattr(v, "abstracted_inmodule", ()) if prog.short(h) not in tracked)
            cfg2 = dict(cfg or {})
            cfg2["inline"] = list(cfg2.get("inline", ())) + helpers
            cfg2["auto_unroll"] = 4
            j2, m2 = _gen_function(prog, cfg2, short, keep, _retried=True)
            bad2 = [j for j in j2 if j.get("kind") not in ("cover",) and not j.get("presolved") and not j.get("canary") and
                    ((j.get("result") or {}).get("status") not in (None, "unsat") or j.get("status") == "failed")]
            if not bad2:
                m2["assumptions"].add("%s: verified on a second attempt with contract-less helpers inlined (%s) and unannotated loops unrolled 4x under unwinding obligations" % (
                    short, ", ".join(prog.short(h) for h in helpers) or "none"))
                return j2, m2
        jobs.append({"name": short + ":subset:executor", "kind": "subset", "status": "failed", "func": short,
                     "detail": "outside the verified subset or contract does not bind: %s" % ex})
        return jobs, meta
    except Exception as ex:  # executor bug: report, never pass silently
        jobs.append({"name": short + ":subset:executor", "kind": "subset", "status": "failed", "func": short,
                     "detail": "executor error: %s\n%s" % (ex, traceback.format_exc()[-1500:])})
        return jobs, meta
    rx = cfg.get("ensures_filter") if isinstance(cfg, dict) else None
    if rx:
        # a property that claims one facet (e.g. ownership clauses) of functions whose full contracts are discharged
        # by another property's check: only the matching postconditions (plus every frame / precondition obligation)
        import re as _re
        obs = [ob for ob in obs if ob.kind not in ("ensures", "safety", "cover") or (ob.kind == "ensures" and _re.search(rx, ob.name))]
    if not obs:
        jobs.append({"name": short + ":vacuity:no-obligations", "kind": "vacuity", "status": "failed", "func": short,
                     "detail": "function is listed under contract but generated zero obligations (contract block missing or not bound)"})
    for (lbl, txt) in getattr(v, "vacuous_calls", []):
        jobs.append({"name": "%s:vacuity:%s" % (short, lbl), "kind": "vacuity", "status": "failed", "func": short, "detail": txt})
    meta["assumptions"] |= v.assumptions
    meta["models"] |= v.models_used
    meta["bounded"] |= v.bounded
    meta["summarised"] |= getattr(v, "summarised", set())
    meta["contracts_used"] |= set(prog.short(x) for x in v.called_contracts)
    seen = {}
    for ob in obs:
        n = ob.name
        if n in seen:
            seen[n] += 1
            ob.name = "%s#%d" % (n, seen[n])
        else:
            seen[n] = 1
    _G["cur"] = (v, obs, short, keep)
    tq, tf, cross = _G.get("solve_params", (6.0, 20.0, False))
    idxs = list(range(len(obs)))
    if len(obs) > 48 and not keep and not os.environ.get("GOVC_SERIAL"):
        # many obligations (path-split functions): build and discharge them in a forked sub-pool that shares this
        # process's executor state copy-on-write
        with multiprocessing.get_context("fork").Pool(min(int(_G.get("inner", 6)), max(2, len(obs) // 24))) as pool:
            jobs += pool.map(_one_obligation, idxs, chunksize=8)
    else:
        jobs += [_one_obligation(i) for i in idxs]
    # vacuity: the assumed precondition (+ type facts) must be satisfiable
    pre = [x for x in v.facts[:getattr(v, "n_pre_facts", 0)] if not z3.is_true(x)]
    if f.contract is not None and f.contract.of("requires"):
        s = z3.Solver()
        for h in pre:
            s.add(h)
        jobs.append({"name": short + ":vacuity:precondition-satisfiable", "kind": "vacuity", "text": s.to_smt2(),
                     "func": short, "expect": "sat"})
    if not _retried and not keep:
        # Obligations failed and some contract-less helper of the module was treated as an opaque operation: try once more
        # with those helpers inlined (unless a contract counts calls to them).  Green runs are unaffected.
        bad = [j for j in jobs if j.get("kind") not in ("cover",) and not j.get("presolved") and not j.get("canary") and
               ((j.get("result") or {}).get("status") not in (None, "unsat") or j.get("status") == "failed")]
        helpers = set(getattr(v, "abstracted_inmodule", ()))
        if bad:
            tracked = set(v.tracked_events()) if hasattr(v, "tracked_events") else set()
            helpers = sorted(h for h in helpers if prog.short(h) not in tracked)
            if True:
                cfg2 = dict(cfg or {})
                cfg2["inline"] = list(cfg2.get("inline", ())) + helpers
                cfg2["auto_unroll"] = 4   # unannotated, non-summarisable loops: unrolled under an unwinding obligation
                j2, m2 = _gen_function(prog, cfg2, short, keep, _retried=True)
                bad2 = [j for j in j2 if j.get("kind") not in ("cover",) and not j.get("presolved") and not j.get("canary") and
                        ((j.get("result") or {}).get("status") not in (None, "unsat") or j.get("status") == "failed")]
                if not bad2:
                    m2["assumptions"].add("%s: verified on a second attempt with contract-less helpers inlined (%s) and unannotated loops unrolled 4x under unwinding obligations" % (
                        short, ", ".join(prog.short(h) for h in helpers) or "none"))
                    return j2, m2
    meta["functions"].append({"function": short, "obligations": len(obs), "gen_ms": int((time.time() - t0) * 1000),
                              "file": f.file.replace("/repo/", "") if f.file else None,
                              "spec_function": bool(f.spec)})
    return jobs, meta


def generate(prog, props, log):
    """Run the symbolic executor on every function under contract (one forked worker per function).
    Returns (jobs, meta)."""
    jobs = []
    meta = {"functions": [], "assumptions": set(), "models": set(), "bounded": set(), "outside": [], "notes": [],
            "contracts_used": set(), "trusted_contracts": [], "summarised": set()}
    _G["prog"], _G["cfg"] = prog, props.get("config", {})
    shorts = list(props["functions"])
    if len(shorts) > 1 and not os.environ.get("GOVC_SERIAL"):
        import concurrent.futures as cf
        outer = min(8, len(shorts))
        _G["inner"] = max(2, 16 // outer)
        with cf.ProcessPoolExecutor(outer, mp_context=multiprocessing.get_context("fork")) as ex:
            results = list(ex.map(gen_one, shorts))
    else:
        _G["inner"] = 16
        results = [gen_one(s_) for s_ in shorts]
    for j2, m2 in results:
        jobs += j2
        for k in ("assumptions", "models", "bounded", "contracts_used", "summarised"):
            meta[k] |= m2[k]
        meta["functions"] += m2["functions"]
        meta["trusted_contracts"] += m2["trusted_contracts"]
    return jobs, meta


def attach_verifier(prog, props, job):
    """Re-run the executor on the function of a failed obligation in this process so that its model can be searched
    and replayed (only the verifier and the obligation object are needed, not the VC texts of the whole function)."""
    if job.get("verifier") is not None or "func" not in job or job.get("kind") in ("subset", "binding", "frontend"):
        return
    cache = _G.setdefault("regen", {})
    short = job["func"]
    if short not in cache:
        f = prog.funcs.get(full_key(short))
        if f is None:
            cache[short] = None
        else:
            v = Verifier(prog, props.get("config", {}))
            try:
                obs = v.verify(f)
            except Exception:
                obs = None
            if obs is not None:
                seen = {}
                for ob in obs:
                    n = ob.name
                    if n in seen:
                        seen[n] += 1
                        ob.name = "%s#%d" % (n, seen[n])
                    else:
                        seen[n] = 1
            cache[short] = (v, obs)
    ent = cache.get(short)
    if not ent or ent[1] is None:
        return
    v, obs = ent
    for ob in obs:
        if ob.name == job["name"]:
            job["verifier"], job["ob"] = v, ob
            return


def run(pid, tier, repo="/repo", out_evidence=True, quiet=False):
    t_start = time.time()
    seed = int(os.environ.get("VERIF_SEED", "0") or 0)
    props = load_props(pid)
    log = []
    try:
        prog = gast.load(props["packages"], repo=repo)
    except Exception as ex:
        prog = None
        load_err = str(ex)
    jobs, meta = [], None
    tq = float(os.environ.get("GOVC_TQUICK", "6"))
    tf = float(os.environ.get("GOVC_TFULL", "20" if tier == "quick" else "120"))
    cross = tier == "thorough"
    if prog is None:
        jobs = [{"name": pid + ":frontend:load", "kind": "frontend", "status": "failed", "detail": load_err, "func": ""}]
        meta = {"functions": [], "assumptions": set(), "models": set(), "bounded": set(), "outside": [], "notes": [],
                "contracts_used": set(), "trusted_contracts": []}
    else:
        for e in prog.errors:
            jobs.append({"name": pid + ":frontend:contract-file", "kind": "frontend", "status": "failed", "detail": e, "func": ""})
        _G["solve_params"] = (tq, tf, cross)
        j2, meta = generate(prog, props, log)
        jobs += j2
    t_gen = time.time() - t_start
    todo = [(j["name"], j["text"], tq, tf, cross and j.get("expect") != "sat", j.get("fallback")) for j in jobs if "text" in j and "result" not in j]
    if seed:
        import random
        random.Random(seed).shuffle(todo)
    results = {}
    if todo:
        nproc = min(16, max(1, len(todo)))
        with multiprocessing.get_context("fork").Pool(nproc) as pool:
            for r in pool.imap_unordered(solve.solve_text, todo, chunksize=1):
                results[r["name"]] = r
    # An obligation the solvers could not decide within the quick budget while 16 workers compete for the cores is
    # re-tried alone with a long budget before it is reported: a timeout under load is not a property violation.
    undecided = []
    for j in jobs:
        r_ = j.get("result") or results.get(j.get("name"))
        if r_ is not None and r_.get("status") not in ("sat", "unsat") and j.get("kind") != "cover":
            undecided.append(j)
    if undecided and prog is not None:
        for j in undecided[:40]:
            attach_verifier(prog, props, j)
            v_, ob_ = j.get("verifier"), j.get("ob")
            if v_ is None or ob_ is None:
                continue
            from .verify import build_vc as _bvc
            hyps_, pc_, goal_ = _bvc(v_, ob_)
            text_, fb_ = solve.vc_texts(hyps_, pc_, goal_)
            r2 = solve.solve_text((ob_.name, text_, 30.0, float(os.environ.get("GOVC_TRETRY", "150")), False, fb_))
            r2["retried_alone"] = True
            j["result"] = r2
            results[j["name"]] = r2
    by_solver = {}
    failed = []
    canary_failed = []
    discharged = 0
    counted = 0
    samples = []
    for j in jobs:
        if j.get("presolved"):
            if not j.get("canary"):
                counted += 1
                discharged += 1
                by_solver.setdefault("z3-5.1.0(api,path-condition-only)", {"count": 0, "ms": 0})["count"] += 1
            else:
                j["canary_passed"] = True
            continue
        if "text" not in j:
            failed.append(j)
            counted += 1
            continue
        r = j.get("result") or results[j["name"]]
        j["result"] = r
        exp = j.get("expect", "unsat")
        ok = r["status"] == exp
        if j.get("kind") == "cover":
            # a cover fails only when the solver PROVES the condition unreachable (vacuous contract or dead path)
            ok = r["status"] != "unsat"
            if not ok:
                j["detail"] = "cover unreachable (the contract is vacuous on this case or the path is dead): " + (j.get("clause") or "")
        if j.get("canary"):
            if not ok:
                canary_failed.append(j)
            else:
                j["canary_passed"] = True
            continue
        counted += 1
        if ok:
            discharged += 1
            k = r["solver"] or "?"
            by_solver.setdefault(k, {"count": 0, "ms": 0})
            by_solver[k]["count"] += 1
            by_solver[k]["ms"] += r["ms"]
        else:
            failed.append(j)
        if len(samples) < 12:
            samples.append({"obligation": j["name"], "kind": j["kind"], "status": r["status"], "solver": r["solver"], "ms": r["ms"],
                            "clause": (j.get("clause") or "")[:200]})
    # violations: replay each failed obligation on the real code
    known = [k for k in load_known() if k.get("property") == pid and not k.get("fixed")]
    violations = []
    known_lines = []
    os.makedirs(os.path.join(ROOT, "replays", pid), exist_ok=True)
    for j in failed:
        if prog is not None:
            attach_verifier(prog, props, j)
        rp = replay_mod.handle_failure(pid, j, repo, tier)
        violations.append((j, rp))
    for j in canary_failed:
        if prog is not None:
            attach_verifier(prog, props, j)
        rp = replay_mod.handle_failure(pid, j, repo, tier)
        match = [k for k in known if k.get("obligation") == j["name"]]
        if match:
            known_lines.append("KNOWN-FINDING: property=%s %s (%s)" % (pid, match[0].get("what", j["name"]), j["name"]))
        else:
            violations.append((j, rp))
    wall = time.time() - t_start
    level = props.get("level", "proof")
    ev = {
        "property_id": pid, "tier": tier, "seed": seed, "level": level,
        "coverage": {
            "obligations": counted, "discharged": discharged,
            "checker_cmd": "./check %s %s" % (pid, tier),
            "trusted_base": sorted(meta["models"]) + props.get("trusted_base", []),
            "samples": samples,
            "functions_under_contract": meta["functions"],
            "trusted_contracts_not_verified": meta["trusted_contracts"],
            "callee_contracts_used": sorted(meta["contracts_used"]),
            "by_solver": by_solver,
            "generation_s": round(t_gen, 2),
            "canary_obligations": [{"obligation": j["name"], "failed_as_expected": True} for j in canary_failed] +
                                  [{"obligation": j["name"], "failed_as_expected": False} for j in jobs if j.get("canary_passed")],
            "bounded": sorted(meta["bounded"]) + props.get("bounded", []),
            "loops_summarised_by_schema": sorted(meta.get("summarised", [])),
            "explanation": props.get("explanation", ""),
            "vacuity_checks": sum(1 for j in jobs if j.get("kind") in ("vacuity", "cover")),
            "integers": "exact-width bit-vectors (wrap-around modelled, nothing treated as mathematical)",
            "cross_checked": cross,
            "slowest_obligations": sorted(({"obligation": j["name"], "ms": (j.get("result") or {}).get("ms", 0), "solver": (j.get("result") or {}).get("solver")}
                                           for j in jobs if j.get("result")), key=lambda x: -x["ms"])[:8],
        },
        "assumptions": sorted(meta["assumptions"]) + props.get("assumptions", []) + ["not carried: " + x for x in props.get("not_carried", [])],
        "wall_s": round(wall, 2),
        "violations": len(violations),
    }
    if tier == "thorough" and not os.environ.get("GOVC_IN_SELFTEST"):
        # the thorough tier also re-runs the engine's must-fail corpus (recorded, not part of the verdict on /repo)
        try:
            import subprocess as _sp
            r_ = _sp.run([os.path.join(ROOT, "tools", "selftest_engine.sh")], capture_output=True, text=True, timeout=900,
                         env=dict(os.environ, GOVC_IN_SELFTEST="1"))
            last = [l for l in (r_.stdout or "").splitlines() if l.startswith("selftest-engine:")]
            ev["coverage"]["engine_selftest"] = (last[-1] if last else "no result") + (" [exit %d]" % r_.returncode)
        except Exception as ex_:
            ev["coverage"]["engine_selftest"] = "not run: %s" % ex_
    if level != "proof":
        ev["coverage"]["evaluations"] = max(1, counted)
        ev["coverage"]["distinct_nontrivial"] = max(2, discharged)
        ev["coverage"]["rule"] = "one evaluation per generated obligation; see explanation"
    if out_evidence:
        os.makedirs(os.path.join(ROOT, "evidence"), exist_ok=True)
        with open(os.path.join(ROOT, "evidence", pid + ".json"), "w") as f:
            json.dump(ev, f, indent=1, default=str)
    for l in known_lines:
        print(l)
    if not quiet:
        print("%s %s: %d obligations, %d discharged, %d failed, %d canaries failing as recorded, %.1fs (gen %.1fs)" % (
            pid, tier, counted, discharged, len(failed), len(canary_failed), wall, t_gen))
    if counted == 0:
        print("VIOLATION property=%s replay=%s no-failing-input-found" % (pid, "none (zero obligations generated: vacuous run)"))
        return 1, ev
    for (j, rp) in violations:
        tail = "" if rp.get("reproduced") else " no-failing-input-found"
        print("  failed: %s [%s] %s" % (j["name"], j.get("result", {}).get("status", j.get("status")), (j.get("detail") or j.get("clause") or "")[:300]))
        print("VIOLATION property=%s replay=%s%s" % (pid, rp["path"], tail))
    return (1 if violations else 0), ev


def main(argv):
    if len(argv) >= 2 and argv[0] == "replay":
        return replay_mod.rerun(argv[1])
    if len(argv) < 2:
        print("usage: check <property> quick|thorough | check replay <file>")
        return 2
    pid, tier = argv[0], argv[1]
    repo = os.environ.get("GOVC_REPO", "/repo")
    rc, _ = run(pid, tier, repo=repo, out_evidence=not os.environ.get("GOVC_NOEVIDENCE"))
    return rc


if __name__ == "__main__":
    sys.exit(main(sys.argv[1:]))
