import z3


def const_names(e):
    seen, out, stack = set(), set(), [e]
    while stack:
        x = stack.pop()
        i = x.get_id()
        if i in seen:
            continue
        seen.add(i)
        if z3.is_quantifier(x):
            stack.append(x.body())
            continue
        if z3.is_app(x):
            if x.num_args() == 0 and x.decl().kind() == z3.Z3_OP_UNINTERPRETED:
                out.add(x.decl().name())
            stack.extend(x.children())
    return out
