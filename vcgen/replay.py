"""Counterexample -> Go test on the real code (go test -overlay, in-package), DESIGN.md 3.5."""
import json
import os
import re
import shutil
import subprocess
import tempfile
import time

import z3

from . import gast
from .values import *  # noqa
from .verify import build_vc

ROOT = os.path.dirname(os.path.dirname(os.path.abspath(__file__)))
MOD = gast.MODPATH


class NoReplay(Exception):
    pass


_REPLAYS = [0]


# Interface-typed inputs whose model value has no concrete dynamic type (the proof treats the methods as
# uninterpreted): the replay tries each of these real values; a clause that evaluates to false for any of them
# on the real code is a genuine counterexample.
IFACE_CANDIDATES = {
    MOD + "/secs2.Item": ["{q}NewEmptyItem()", "{q}NewIntItem(3)", "{q}NewASCIIItem(\"x\")", "{q}NewIntItem(4, 1, 2)",
                          "{q}NewListItem({q}NewIntItem(3))", "{q}NewBinaryItem(1, 2, 3)"],
}


# ---------------------------------------------------------------- model search with shrinking

def size_terms(v, t, out, ver=None, depth=0):
    if isinstance(v, PtrV) and ver is not None and depth < 2 and t.under().k == "ptr" and t.elem().under().k == "struct":
        et = t.elem()
        for name, ft, _ in et.fields():
            try:
                fv = HeapLV_get(ver, ver.pre_state, v.oid, et, name, ft)
                size_terms(fv, ft, out, ver, depth + 1)
            except Exception:
                pass
        return
    if isinstance(v, SliceV):
        if v.ln is not None and z3.is_expr(v.ln):
            out.append(v.ln)
        if v.cap is not None and z3.is_expr(v.cap):
            out.append(v.cap)
    elif isinstance(v, StructV):
        for name, ft, _ in v.typ.fields():
            if v.f.get(name) is not None:
                size_terms(v.f[name], ft, out)


def find_model(ver, ob, extra_sizes=(), extra_constraints=()):
    for m, b in find_models(ver, ob, extra_sizes, extra_constraints):
        return m, b
    return None, "no model"


def find_models(ver, ob, extra_sizes=(), extra_constraints=()):
    """Candidate counterexamples, cheapest query first: the quantifier-free subset of the hypotheses may admit models
    that the full set excludes, so a candidate that does not reproduce on the real code is followed by the next one."""
    from . import quant
    hyps, pc, goal = build_vc(ver, ob)
    qf, full = quant.prepare(hyps, pc, goal)
    seen = 0
    for asserts in (qf, full):
        if asserts is None:
            continue
        asserts = list(asserts) + list(extra_constraints)
        m, b = _find_model(ver, asserts, extra_sizes)
        if m is not None:
            seen += 1
            yield m, b
    if not seen:
        return


def _find_model(ver, asserts, extra_sizes=()):
    t_end = time.time() + float(os.environ.get("GOVC_MODEL_BUDGET", "45"))
    sizes = []
    for name, v, t in ver.input_vals:
        size_terms(v, t, sizes, ver)
    sizes += list(extra_sizes)
    last = None
    for bound in (8, 64, 4096, 1 << 20, 1 << 25, None):
        if time.time() > t_end:
            return None, "model search budget exhausted (last: %s)" % last
        s = z3.Solver()
        s.set("timeout", 10000)
        for h in asserts:
            s.add(h)
        if bound is not None:
            for sz in sizes:
                s.add(z3.ULE(sz, z3.BitVecVal(bound, sz.size())))
        r = s.check()
        if r == z3.unknown:
            # lambda terms (bulk copies) make the array theory report 'incomplete' on some seeds: retry
            for seed in range(1, 4):
                if time.time() > t_end:
                    break
                s2 = z3.SolverFor("AUFBV") if seed == 1 else z3.Solver()
                s2.set("timeout", 10000)
                if seed > 1:
                    s2.set("random_seed", seed)
                for a in s.assertions():
                    s2.add(a)
                r = s2.check()
                if r != z3.unknown:
                    s = s2
                    break
        if r == z3.sat:
            return s.model(), bound
        last = r
    return None, str(last)


# ---------------------------------------------------------------- Go source generation

class GoGen:
    def __init__(self, ver, model, pkgpath):
        self.v = ver
        self.m = model
        self.pkg = pkgpath
        self.imports = set()
        self.decls = []
        self.n = 0
        self.state = ver.pre_state
        self.multi = None

    def ev(self, term):
        return self.m.eval(term, model_completion=True)

    def num(self, term, signed=False):
        r = self.ev(term)
        if z3.is_bv_value(r):
            return r.as_signed_long() if signed else r.as_long()
        raise NoReplay("non-numeral model value %s" % r)

    def boolv(self, term):
        r = self.ev(term)
        return z3.is_true(r)

    def gotype(self, t):
        k = t.k
        if k == "alias":
            return self.gotype(t.prog.types[t.d["under"]])
        if k == "basic":
            n = t.d["name"]
            if n.startswith("untyped"):
                return "int"
            return n
        if k == "named":
            name = t.d["name"]
            targs = ""
            if t.d.get("targs"):
                targs = "[" + ", ".join(self.gotype(t.prog.types[a]) for a in t.d["targs"]) + "]"
            if "." in name:
                pk, nm = name.rsplit(".", 1)
                if pk == self.pkg:
                    return nm + targs
                self.imports.add(pk)
                return pk.rsplit("/", 1)[-1] + "." + nm + targs
            return name + targs
        if k == "slice":
            return "[]" + self.gotype(t.elem())
        if k == "array":
            return "[%d]%s" % (t.d["len"], self.gotype(t.elem()))
        if k == "ptr":
            return "*" + self.gotype(t.elem())
        if k == "iface":
            if not t.d.get("methods"):
                return "any"
            if t.s == "error":
                return "error"
        raise NoReplay("no Go type text for %r" % t)

    def value(self, v, t, depth=0):
        u = t.under()
        k = u.k
        if depth > 4:
            raise NoReplay("value too deep")
        if k == "basic":
            b = u.d.get("b")
            if b == "bool":
                return "true" if self.boolv(v) else "false"
            if b == "int":
                x = self.num(v, signed=u.d.get("signed", True))
                return "%s(%d)" % (self.gotype(t), x)
            if b == "float":
                bits = self.num(v)
                self.imports.add("math")
                if (u.d.get("bits") or 64) == 32:
                    return "%s(math.Float32frombits(0x%x))" % (self.gotype(t), bits)
                return "%s(math.Float64frombits(0x%x))" % (self.gotype(t), bits)
            if b == "string":
                data = self.region_bytes(v)
                return "%s(%s)" % (self.gotype(t), go_bytes_string(data))
        if k == "slice":
            ln = self.num(v.ln)
            cap = self.num(v.cap)
            r = self.num(v.rid)
            if r == 0:
                return "%s(nil)" % self.gotype(t)
            et = t.elem()
            if ln > 2048 and is_scalar_type(et) and ln <= (1 << 27):
                return self.sparse_slice(v, t, ln)
            if ln > (1 << 20):
                raise NoReplay("model slice too large (len %d cap %d)" % (ln, cap))
            if cap > (1 << 20):
                cap = ln   # an unconstrained capacity in the model: the replay uses the tightest legal one
            elems = [self.value(self.v.slice_get(self.state, v, idx(i)), et, depth + 1) for i in range(ln)]
            self.n += 1
            nm = "sl%d" % self.n
            self.decls.append("%s := make(%s, %d, %d)" % (nm, self.gotype(t), ln, max(cap, ln)))
            if elems:
                self.decls.append("copy(%s, %s{%s})" % (nm, self.gotype(t), ", ".join(elems)))
            return nm
        if k == "array":
            et = t.elem()
            n = u.d["len"]
            if n > 4096:
                raise NoReplay("array too large")
            elems = [self.value(self.v.arr_get(v, idx(i)), et, depth + 1) for i in range(n)]
            return "%s{%s}" % (self.gotype(t), ", ".join(elems))
        if k == "ptr":
            o = self.num(v.oid)
            if o == 0:
                return "(%s)(nil)" % self.gotype(t)
            et = t.elem()
            if et.under().k == "struct":
                return "&" + self.struct_lit(et, lambda name, ft: HeapLV_get(self.v, self.state, v.oid, et, name, ft), depth)
            inner = self.value(HeapLV_get(self.v, self.state, v.oid, et, None, et), et, depth + 1)
            self.n += 1
            nm = "p%d" % self.n
            self.decls.append("%s := %s" % (nm, inner))
            return "&" + nm
        if k == "struct":
            return self.struct_lit(t, lambda name, ft: v.f[name], depth)
        if k == "iface":
            tag = self.num(v.tag)
            if tag == 0:
                return "nil"
            dt = None
            if 0 < tag <= len(t.prog.types):
                dt = t.prog.types[tag - 1]
            if dt is None or dt.under().k == "iface":
                cands = IFACE_CANDIDATES.get(t.name())
                if cands and depth == 0:
                    q = "" if self.pkg == t.name().rsplit(".", 1)[0] else t.name().rsplit(".", 1)[0].rsplit("/", 1)[-1] + "."
                    if q:
                        self.imports.add(t.name().rsplit(".", 1)[0])
                    self.multi = (self.gotype(t), [c.replace("{q}", q) for c in cands])
                    return "zzCand"
                raise NoReplay("interface value with unknown dynamic type tag %d" % tag)
            inner = self.value(self.v.unbox(v, dt, self.state), dt, depth + 1)
            return "%s(%s)" % (self.gotype(t), inner) if self.gotype(t) == "any" else inner
        if k in ("sig", "chan", "map"):
            return "nil"
        raise NoReplay("cannot build a Go value of type %s" % t.s)

    def sparse_slice(self, v, t, ln):
        """Large slice of scalars: default value + the explicitly stored entries of the model's array."""
        (_, _, arr), = self.v.region_arrays(self.state, v)
        a = self.ev(arr)
        off = self.num(v.off)
        entries = {}
        default = 0
        cur = a
        for _ in range(200000):
            if z3.is_store(cur):
                i, x = cur.arg(1), cur.arg(2)
                if z3.is_bv_value(i):
                    k = i.as_long() - off
                    if 0 <= k < ln and k not in entries:
                        entries[k] = x
                cur = cur.arg(0)
                continue
            if z3.is_const_array(cur):
                d = cur.arg(0)
                default = d
                break
            if z3.is_as_array(cur) or z3.is_quantifier(cur) or True:
                # function-graph / lambda model: sample the window ends and fall back to zero default
                for k in list(range(0, min(ln, 64))) + list(range(max(0, ln - 64), ln)):
                    entries.setdefault(k, self.ev(z3.Select(arr, v.off + idx(k))))
                default = None
                break
        et = t.elem()
        self.n += 1
        nm = "sl%d" % self.n
        self.decls.append("%s := make(%s, %d)" % (nm, self.gotype(t), ln))
        if default is not None:
            dv = self.value(default, et, 1)
            zero = self.value(self.v.zero_value(et), et, 1)
            if dv != zero:
                self.decls.append("for i := range %s { %s[i] = %s }" % (nm, nm, dv))
        for k in sorted(entries):
            self.decls.append("%s[%d] = %s" % (nm, k, self.value(entries[k], et, 1)))
        return nm

    def struct_lit(self, t, getter, depth):
        parts = []
        tname = t.name() or ""
        foreign = "." in tname and tname.rsplit(".", 1)[0] != self.pkg
        if foreign and (tname.startswith("sync.") or tname.startswith("sync/atomic.") or "internal/" in tname.split(MOD)[-1] and not tname.startswith(MOD)):
            # synchronisation primitives and std-internal types: only their zero value is constructible
            return "%s{}" % self.gotype(t)
        for name, ft, emb in t.fields():
            if foreign and name[:1].islower():
                continue   # unexported field of another package's struct: left at its zero value
            try:
                fv = getter(name, ft)
                if fv is None:
                    continue
                parts.append("%s: %s" % (name, self.value(fv, ft, depth + 1)))
            except (NoReplay, Unsupported):
                continue
        return "%s{%s}" % (self.gotype(t), ", ".join(parts))

    def region_bytes(self, sl):
        ln = self.num(sl.ln)
        if ln > (1 << 20):
            raise NoReplay("model string too large (%d)" % ln)
        out = bytearray()
        for i in range(ln):
            out.append(self.num(self.v.slice_get(self.state, sl, idx(i))))
        return bytes(out)


def HeapLV_get(ver, st, oid, owner, name, ft):
    from .sym import HeapLV
    return HeapLV(oid, owner, name, ft).get(ver, st)


def go_bytes_string(data):
    return '"' + "".join("\\x%02x" % b for b in data) + '"'


# ---------------------------------------------------------------- clause text -> executable Go

def _match(s, i, open_, close_):
    depth = 0
    j = i
    while j < len(s):
        ch = s[j]
        if ch in "\"'`":
            q = ch
            j += 1
            while j < len(s) and s[j] != q:
                if s[j] == "\\" and q != "`":
                    j += 1
                j += 1
        elif ch == open_:
            depth += 1
        elif ch == close_:
            depth -= 1
            if depth == 0:
                return j
        j += 1
    return -1


def _split_top(s):
    parts, depth, start = [], 0, 0
    i = 0
    while i < len(s):
        ch = s[i]
        if ch in "\"'`":
            q = ch
            i += 1
            while i < len(s) and s[i] != q:
                if s[i] == "\\" and q != "`":
                    i += 1
                i += 1
        elif ch in "([{":
            depth += 1
        elif ch in ")]}":
            depth -= 1
        elif ch == "," and depth == 0:
            parts.append(s[start:i])
            start = i + 1
        i += 1
    parts.append(s[start:])
    return parts


def exec_clause(src, params, results):
    """Rewrite the type-checked clause text into Go that can run after the call."""
    # zzResult[T](i) -> r_i
    out = ""
    i = 0
    while True:
        j = src.find("zzResult[", i)
        if j < 0:
            out += src[i:]
            break
        out += src[i:j]
        k = _match(src, j + len("zzResult"), "[", "]")
        m = re.match(r"\((\d+)\)", src[k + 1:])
        out += results[int(m.group(1))]
        i = k + 1 + m.end()
    src = out
    # zzOld(e) -> e over the snapshot variables
    out = ""
    i = 0
    while True:
        j = src.find("zzOld(", i)
        if j < 0:
            out += src[i:]
            break
        out += src[i:j]
        k = _match(src, j + len("zzOld"), "(", ")")
        inner = src[j + len("zzOld("):k]
        for p in params:
            inner = re.sub(r"(?<![\w.])%s\b" % re.escape(p), "old_" + p, inner)
        out += "(" + inner + ")"
        i = k + 1
    src = out
    # zzImp(a, b) -> (!(a) || (b)), innermost-last so nesting works
    while True:
        j = src.rfind("zzImp(")
        if j < 0:
            break
        k = _match(src, j + len("zzImp"), "(", ")")
        a, b = _split_top(src[j + len("zzImp("):k])
        src = src[:j] + "(!(" + a.strip() + ") || (" + b.strip() + "))" + src[k + 1:]
    return src


def clone_expr(name, t):
    u = t.under()
    if u.k == "slice":
        return "slices.Clone(%s)" % name, {"slices"}
    if u.k == "ptr" and t.elem().under().k == "struct":
        return "func() %s { if %s == nil { return nil }; c := *%s; return &c }()" % ("%T", name, name), set()
    return name, set()


def build_test(ver, ob, model, func, job):
    node = func.node
    pkgpath = func.pkg.path
    g = GoGen(ver, model, pkgpath)
    params = []
    lines = []
    recv_name = None
    for (name, v, t) in ver.input_vals:
        val = g.value(v, t)
        gname = name if name not in ("_", "") else "arg%d" % len(params)
        lines.append("var %s %s = %s" % (gname, g.gotype(t), val))
        lines.append("_ = %s" % gname)
        params.append((gname, t))
    has_recv = bool(node.get("Recv") and node["Recv"].get("List"))
    if has_recv:
        recv_name = params[0][0]
        args = [p for p, _ in params[1:]]
        call = "%s.%s" % (recv_name, node["Name"]["Name"])
    else:
        args = [p for p, _ in params]
        call = node["Name"]["Name"]
    # variadic
    plist = node["Type"]["Params"].get("List") or []
    if plist and plist[-1]["Type"].get("k") == "Ellipsis" and args:
        args[-1] = args[-1] + "..."
    sig = ver.prog.types[node["sig"]].under().d
    nres = len(sig.get("results") or [])
    named = []
    for fld in (node["Type"].get("Results") or {}).get("List") or []:
        for nm in fld.get("Names") or []:
            named.append(nm["Name"])
    if len(named) == nres and all(n != "_" for n in named):
        rnames = named
    else:
        rnames = ["r%d" % i for i in range(nres)]
    snaps = []
    for p, t in params:
        u = t.under()
        if u.k == "slice":
            g.imports.add("slices")
            snaps.append("old_%s := slices.Clone(%s)" % (p, p))
        elif u.k == "ptr" and t.elem().under().k == "struct":
            snaps.append("var old_%s %s; if %s != nil { c := *%s; old_%s = &c }" % (p, g.gotype(t), p, p, p))
        else:
            snaps.append("old_%s := %s" % (p, p))
        snaps.append("_ = old_%s" % p)
    clause_go = None
    cl = None
    if ob is not None and ob.kind == "ensures" and func.contract is not None:
        base = re.sub(r"#\d+$", "", ob.name)
        for c in func.contract.of("ensures"):
            if base.endswith(":ensures:" + c["label"]):
                cl = c
        if cl is not None and cl.get("go"):
            clause_go = exec_clause(cl["go"], [p for p, _ in params], rnames)
    body = []
    body += g.decls
    body += lines
    body += snaps
    use_fresh = bool(clause_go and "zzFresh(" in clause_go)
    if use_fresh:
        # fresh(x) is decidable at run time for the replay: x must not share storage with any input the test built
        clause_go = clause_go.replace("zzFresh(", "zzReplayFresh(")
        for dl in g.decls:
            m_ = re.match(r"^(sl\d+|p\d+) :=", dl)
            if m_:
                body.append("zzReplayRegister(%s)" % (m_.group(1) if m_.group(1).startswith("sl") else "&" + m_.group(1)))
        for pn, pt in params:
            if pt.under().k in ("slice", "ptr", "iface"):
                body.append("zzReplayRegister(%s)" % pn)
        g.imports.add("reflect")
    rec = 'defer func() { if r := recover(); r != nil { fmt.Printf("GOVC-REPLAY panic: %v\\n", r); zzT.Fail() } }()'
    if nres:
        rtypes = [g.gotype(ver.prog.types[r["t"]]) for r in sig.get("results") or []]
        sigres = ", ".join("%s %s" % (n, ty) for n, ty in zip(["zr%d" % i for i in range(nres)], rtypes))
        body.append("%s := func() (%s) { %s; return %s(%s) }()" % (", ".join(rnames), sigres, rec, call, ", ".join(args)))
        for r in rnames:
            body.append("_ = %s" % r)
        body.append("if zzT.Failed() { return }")
        body.append('fmt.Printf("GOVC-REPLAY results: %%.300s\\n", fmt.Sprint(%s))' % ", ".join(rnames))
    else:
        body.append("func() { %s; %s(%s) }()" % (rec, call, ", ".join(args)))
        body.append("if zzT.Failed() { return }")
    if ob is not None and ob.kind == "alloc":
        g.imports.add("runtime")
        # wrap: measure bytes allocated by the call itself
        for k, line in enumerate(body):
            if line.startswith(", ".join(rnames) + " := func()") or line.startswith("func() { defer"):
                body[k] = "var zzM0, zzM1 runtime.MemStats; runtime.GC(); runtime.ReadMemStats(&zzM0); " + line + "; runtime.ReadMemStats(&zzM1)"
        body.append('fmt.Printf("GOVC-REPLAY allocated-bytes: %d\\n", zzM1.TotalAlloc-zzM0.TotalAlloc)')
        body.append('if zzM1.TotalAlloc-zzM0.TotalAlloc >= 1<<24 { fmt.Printf("GOVC-REPLAY allocation-exceeds-bound\\n"); zzT.Fail() }')
    if clause_go:
        body.append('defer func() { if r := recover(); r != nil { fmt.Printf("GOVC-REPLAY clause-evaluation-panic: %v\\n", r) } }()')
        body.append("ok := %s" % clause_go)
        body.append('fmt.Printf("GOVC-REPLAY clause-holds: %v\\n", ok)')
        body.append("if !ok { zzT.Fail() }")
    else:
        body.append('fmt.Printf("GOVC-REPLAY returned-normally\\n")')
    g.imports |= {"fmt", "testing"}
    imps = "\n".join('\t"%s"' % i for i in sorted(g.imports))
    if g.multi is not None:
        ty, cands = g.multi
        inner = "\n\t\t".join(body)
        src = ("package %s\n\nimport (\n%s\n)\n\nfunc TestZZGovcReplay(zzT *testing.T) {\n\tfor ci, zzCand := range []%s{%s} {\n\t\t_ = ci\n"
               "\t\tfunc() {\n\t\t%s\n\t\t}()\n\t}\n}\n") % (func.pkg.name, imps, ty, ", ".join(cands), inner)
        return src
    src = "package %s\n\nimport (\n%s\n)\n\nfunc TestZZGovcReplay(zzT *testing.T) {\n\t%s\n}\n" % (
        func.pkg.name, imps, "\n\t".join(body))
    if use_fresh:
        src += REPLAY_FRESH_HELPERS
    return src


REPLAY_FRESH_HELPERS = """
var zzReplayRegs []any

func zzReplayRegister(x any) { zzReplayRegs = append(zzReplayRegs, x) }

func zzReplaySpan(x any) (uintptr, uintptr, bool) {
	if x == nil {
		return 0, 0, false
	}
	v := reflect.ValueOf(x)
	switch v.Kind() {
	case reflect.Slice:
		if v.IsNil() || v.Cap() == 0 {
			return 0, 0, false
		}
		p := v.Pointer()
		return p, p + uintptr(v.Cap())*v.Type().Elem().Size(), true
	case reflect.Pointer:
		if v.IsNil() {
			return 0, 0, false
		}
		p := v.Pointer()
		sz := v.Type().Elem().Size()
		if sz == 0 {
			sz = 1
		}
		return p, p + sz, true
	}
	return 0, 0, false
}

// zzReplayFresh: x shares no storage with any value the replay constructed as an input.
func zzReplayFresh(x any) bool {
	lo, hi, ok := zzReplaySpan(x)
	if !ok {
		return true
	}
	for _, r := range zzReplayRegs {
		l2, h2, ok2 := zzReplaySpan(r)
		if ok2 && lo < h2 && l2 < hi {
			return false
		}
	}
	return true
}
"""


def run_test(src, pkgpath, repo, timeout=120):
    rel = pkgpath[len(MOD) + 1:] if pkgpath.startswith(MOD + "/") else "."
    tmp = tempfile.mkdtemp(prefix="govc-replay-", dir=os.environ.get("GOVC_TMP", "/tmp"))
    try:
        tf = os.path.join(tmp, "zz_govc_replay_test.go")
        with open(tf, "w") as f:
            f.write(src)
        ov = os.path.join(tmp, "overlay.json")
        with open(ov, "w") as f:
            json.dump({"Replace": {os.path.join(repo, rel, "zz_govc_replay_test.go"): tf}}, f)
        cmd = ["go", "test", "-v", "-tags=verif", "-overlay", ov, "-vet=off", "-count=1", "-timeout", "60s", "-run", "^TestZZGovcReplay$", "./" + rel]
        try:
            r = subprocess.run(cmd, cwd=repo, env=gast.go_env(), capture_output=True, text=True, timeout=timeout)
            out = r.stdout + r.stderr
            rc = r.returncode
        except subprocess.TimeoutExpired:
            out, rc = "replay timed out", -1
        return rc, out
    finally:
        shutil.rmtree(tmp, ignore_errors=True)


def verdict(rc, out, ob):
    if "GOVC-REPLAY panic" in out:
        line = [l for l in out.splitlines() if "GOVC-REPLAY panic" in l][0]
        if ob is not None and ob.kind == "safety":
            return True, "reproduced: " + line
        # a panic of the harness-built call is only a reproduction of a panic-freedom obligation; for any other
        # obligation it means the harness could not build inputs that satisfy the function's wiring assumptions
        return False, "inconclusive: the replayed call panicked before the clause could be evaluated (" + line + ")"
    if "GOVC-REPLAY allocation-exceeds-bound" in out:
        return True, "reproduced: " + [l for l in out.splitlines() if "allocated-bytes" in l][0] + " for an input of a few bytes"
    if "GOVC-REPLAY clause-holds: false" in out:
        return True, "reproduced: postcondition evaluates to false on the real code"
    if "GOVC-REPLAY clause-holds: true" in out:
        return False, "not reproduced: postcondition holds on the real code for the model input"
    if "GOVC-REPLAY clause-evaluation-panic" in out:
        return False, "inconclusive: evaluating the clause on the real results panicked: " + [l for l in out.splitlines() if "clause-evaluation-panic" in l][0]
    if "GOVC-REPLAY returned-normally" in out:
        return False, "not reproduced: the real function returned normally on the model input"
    if rc != 0:
        return False, "replay did not build/run: " + out[-600:]
    return False, "no verdict"


def handle_failure(pid, job, repo, tier):
    name = job["name"]
    safe = re.sub(r"[^A-Za-z0-9_.@#-]+", "_", name)[:150]
    path = os.path.join(os.environ.get("GOVC_REPLAYDIR") or os.path.join(ROOT, "replays"), pid, safe + ".json")
    rec = {"property": pid, "obligation": name, "kind": job.get("kind"), "function": job.get("func"),
           "clause": job.get("clause"), "status": job.get("result", {}).get("status", job.get("status")),
           "solver": job.get("result", {}).get("solver"), "solver_output": job.get("result", {}).get("detail") or job.get("detail"),
           "race": job.get("result", {}).get("race"), "reproduced": False, "verdict": "no model", "test_source": None}
    ver, ob = job.get("verifier"), job.get("ob")
    _REPLAYS[0] += 1
    if _REPLAYS[0] > int(os.environ.get("GOVC_MAX_REPLAYS", "4")):
        rec["verdict"] = "failed obligation recorded; counterexample search skipped (replay budget of this run spent on earlier failures)"
        ver = None
    if ver is not None and ob is not None:
        try:
            model, bound = None, None
            if ob.kind == "alloc" and z3.is_app(ob.goal) and ob.goal.num_args() == 2:
                # make the violation unmistakable: a request of at least 16M elements against a bound under 64K
                cnt, bnd = ob.goal.arg(0), ob.goal.arg(1)
                model, bound = find_model(ver, ob, extra_constraints=[cnt >= (1 << 24), cnt <= (1 << 27), bnd <= (1 << 16), bnd >= 0])
            cands = [(model, bound)] if model is not None else find_models(ver, ob)
            tried = 0
            for model, bound in cands:
                tried += 1
                rec["shrink_bound"] = bound
                func = ob.func
                try:
                    src = build_test(ver, ob, model, func, job)
                except (NoReplay, Unsupported) as ex:
                    rec["verdict"] = "model found but not replayable: %s" % ex
                    continue
                rec["test_source"] = src
                rec["package"] = func.pkg.path
                rc, out = run_test(src, func.pkg.path, repo)
                rec["replay_output"] = out[-3000:]
                rec["reproduced"], rec["verdict"] = verdict(rc, out, ob)
                if rec["reproduced"]:
                    break
            if not tried:
                rec["verdict"] = "no counterexample model available"
        except (NoReplay, Unsupported) as ex:
            rec["verdict"] = "model found but not replayable: %s" % ex
        except Exception as ex:
            import traceback
            rec["verdict"] = "replay machinery error: %s | %s" % (ex, traceback.format_exc()[-900:].replace("\n", " / "))
    os.makedirs(os.path.dirname(path), exist_ok=True)
    with open(path, "w") as f:
        json.dump(rec, f, indent=1, default=str)
    rec["path"] = path
    return rec


def rerun(path):
    with open(path) as f:
        rec = json.load(f)
    if not rec.get("test_source"):
        print("replay file carries no test source; obligation:", rec.get("obligation"))
        print(rec.get("verdict"))
        print(rec.get("solver_output"))
        return 1
    rc, out = run_test(rec["test_source"], rec["package"], os.environ.get("GOVC_REPO", "/repo"))
    print(out)
    ok, v = verdict(rc, out, None)
    print(v)
    return 1 if ok else 0
