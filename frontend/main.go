// Command goast is the front end of govc: it loads packages of /repo with full
// type information (build tag verif on, so the guarded contract files are part of
// the package), parses the //@ contract blocks, type-checks every clause in the
// scope of the function it annotates (types.CheckExpr), and emits one JSON
// document with the typed AST of every function, the contracts and a type table.
// Nothing is hand-copied: the back end sees exactly the syntax the compiler sees.
package main

import (
	"encoding/json"
	"flag"
	"fmt"
	"go/ast"
	"go/constant"
	"go/token"
	"go/types"
	"os"
	"reflect"
	"sort"
	"strings"

	"golang.org/x/tools/go/packages"
	"golang.org/x/tools/go/types/typeutil"
)

type dumper struct {
	fset    *token.FileSet
	typeIDs typeutil.Map // types.Type -> int
	typeTab []map[string]any
	objIDs  map[types.Object]int
	objTab  []map[string]any
	info    *types.Info // current package info (or clause info)
	pkg     *types.Package
	errors  []string
	loopIdx map[ast.Node]int // loop statement -> 1-based ordinal within its function (contract clauses name loops by it)
}

func main() {
	repo := flag.String("repo", "/repo", "repository root")
	tags := flag.String("tags", "verif", "build tags")
	out := flag.String("out", "", "output file (default stdout)")
	flag.Parse()
	patterns := flag.Args()
	if len(patterns) == 0 {
		fmt.Fprintln(os.Stderr, "usage: goast [-repo dir] [-tags t] pkgpattern...")
		os.Exit(2)
	}
	cfg := &packages.Config{
		Mode: packages.NeedName | packages.NeedFiles | packages.NeedSyntax | packages.NeedTypes |
			packages.NeedTypesInfo | packages.NeedImports | packages.NeedDeps | packages.NeedCompiledGoFiles,
		Dir:        *repo,
		BuildFlags: []string{"-tags=" + *tags},
		Tests:      false,
	}
	pkgs, err := packages.Load(cfg, patterns...)
	if err != nil {
		fmt.Fprintln(os.Stderr, "load:", err)
		os.Exit(2)
	}
	d := &dumper{objIDs: map[types.Object]int{}}
	result := map[string]any{}
	pkgsOut := map[string]any{}
	nerr := 0
	for _, p := range pkgs {
		for _, e := range p.Errors {
			fmt.Fprintln(os.Stderr, "pkg error:", e)
			nerr++
		}
	}
	if nerr > 0 {
		os.Exit(2)
	}
	for _, p := range pkgs {
		d.fset = p.Fset
		d.info = p.TypesInfo
		d.pkg = p.Types
		pkgsOut[p.PkgPath] = d.dumpPackage(p)
	}
	result["packages"] = pkgsOut
	result["types"] = d.typeTab
	result["objects"] = d.objTab
	result["errors"] = d.errors
	var w *os.File = os.Stdout
	if *out != "" {
		w, err = os.Create(*out)
		if err != nil {
			fmt.Fprintln(os.Stderr, err)
			os.Exit(2)
		}
		defer w.Close()
	}
	enc := json.NewEncoder(w)
	if err := enc.Encode(result); err != nil {
		fmt.Fprintln(os.Stderr, err)
		os.Exit(2)
	}
}

func funcKey(fd *ast.FuncDecl) string {
	if fd.Recv == nil || len(fd.Recv.List) == 0 {
		return fd.Name.Name
	}
	t := fd.Recv.List[0].Type
	ptr := false
	if s, ok := t.(*ast.StarExpr); ok {
		ptr = true
		t = s.X
	}
	// strip type params
	switch x := t.(type) {
	case *ast.IndexExpr:
		t = x.X
	case *ast.IndexListExpr:
		t = x.X
	}
	name := "?"
	if id, ok := t.(*ast.Ident); ok {
		name = id.Name
	}
	if ptr {
		return "(*" + name + ")." + fd.Name.Name
	}
	return "(" + name + ")." + fd.Name.Name
}

func objFuncKey(f *types.Func) string {
	sig := f.Type().(*types.Signature)
	pk := ""
	if f.Pkg() != nil {
		pk = f.Pkg().Path() + "."
	}
	if sig.Recv() == nil {
		return pk + f.Name()
	}
	rt := sig.Recv().Type()
	ptr := false
	if p, ok := rt.(*types.Pointer); ok {
		ptr = true
		rt = p.Elem()
	}
	name := "?"
	switch n := rt.(type) {
	case *types.Named:
		name = n.Obj().Name()
		if n.Obj().Pkg() != nil {
			pk = n.Obj().Pkg().Path() + "."
		}
	case *types.Interface:
		name = "interface"
	}
	if ptr {
		return pk + "(*" + name + ")." + f.Name()
	}
	return pk + "(" + name + ")." + f.Name()
}

func (d *dumper) dumpPackage(p *packages.Package) map[string]any {
	out := map[string]any{"name": p.Name, "path": p.PkgPath}
	funcs := map[string]any{}
	var contractComments []*contractSrc
	funcDecls := map[string]*ast.FuncDecl{}
	files := []string{}
	vars := []any{}
	for i, f := range p.Syntax {
		fname := p.CompiledGoFiles[i]
		files = append(files, fname)
		isContract := strings.HasSuffix(fname, "_verif.go")
		for _, decl := range f.Decls {
			switch dd := decl.(type) {
			case *ast.FuncDecl:
				key := funcKey(dd)
				funcDecls[key] = dd
				d.loopIdx = map[ast.Node]int{}
				for i, l := range collectLoops(dd) {
					d.loopIdx[l] = i + 1
				}
				n := d.node(dd)
				n["file"] = fname
				n["key"] = key
				n["spec"] = isContract
				if obj, ok := d.info.Defs[dd.Name].(*types.Func); ok {
					n["sig"] = d.typeID(obj.Type())
					n["obj"] = d.objID(obj)
				}
				funcs[key] = n
			case *ast.GenDecl:
				if dd.Tok == token.VAR {
					for _, s := range dd.Specs {
						vs := s.(*ast.ValueSpec)
						n := d.node(vs)
						n["file"] = fname
						vars = append(vars, n)
					}
				}
			}
		}
		if isContract {
			for _, cg := range f.Comments {
				for _, c := range cg.List {
					// gofmt rewrites "//@" to "// @" inside doc comments; accept both spellings
					if strings.HasPrefix(c.Text, "//@") {
						contractComments = append(contractComments, &contractSrc{text: strings.TrimPrefix(c.Text, "//@"), pos: c.Pos(), file: fname})
					} else if strings.HasPrefix(c.Text, "// @") {
						contractComments = append(contractComments, &contractSrc{text: strings.TrimPrefix(c.Text, "// @"), pos: c.Pos(), file: fname})
					}
				}
			}
		}
	}
	out["files"] = files
	out["funcs"] = funcs
	out["vars"] = vars
	out["contracts"] = d.parseContracts(p, contractComments, funcDecls)
	// named types with method sets (for interface contracts / type invariants)
	scope := p.Types.Scope()
	tn := map[string]any{}
	for _, name := range scope.Names() {
		if t, ok := scope.Lookup(name).(*types.TypeName); ok {
			tn[name] = d.typeID(t.Type())
		}
	}
	out["typenames"] = tn
	return out
}

// ---------------------------------------------------------------- types

func (d *dumper) typeID(t types.Type) int {
	if t == nil {
		return -1
	}
	t = types.Unalias(t) // aliases are identical to their targets (typeutil.Map would conflate them anyway)
	if v := d.typeIDs.At(t); v != nil {
		return v.(int)
	}
	id := len(d.typeTab)
	ent := map[string]any{"id": id, "s": types.TypeString(t, nil)}
	d.typeTab = append(d.typeTab, ent)
	d.typeIDs.Set(t, id)
	switch x := t.(type) {
	case *types.Basic:
		ent["k"] = "basic"
		ent["name"] = x.Name()
		info := x.Info()
		switch {
		case info&types.IsBoolean != 0:
			ent["b"] = "bool"
		case info&types.IsInteger != 0:
			ent["b"] = "int"
			ent["signed"] = info&types.IsUnsigned == 0
			ent["bits"] = basicBits(x.Kind())
			ent["untyped"] = info&types.IsUntyped != 0
		case info&types.IsFloat != 0:
			ent["b"] = "float"
			ent["bits"] = basicBits(x.Kind())
			ent["untyped"] = info&types.IsUntyped != 0
		case info&types.IsString != 0:
			ent["b"] = "string"
		default:
			ent["b"] = "other"
		}
	case *types.Named:
		ent["k"] = "named"
		name := x.Obj().Name()
		if x.Obj().Pkg() != nil {
			name = x.Obj().Pkg().Path() + "." + name
		}
		ent["name"] = name
		ent["short"] = x.Obj().Name()
		ent["under"] = d.typeID(x.Underlying())
		if ta := x.TypeArgs(); ta != nil {
			var l []int
			for i := 0; i < ta.Len(); i++ {
				l = append(l, d.typeID(ta.At(i)))
			}
			ent["targs"] = l
		}
		ms := map[string]any{}
		for i := 0; i < x.NumMethods(); i++ {
			m := x.Method(i)
			sig := m.Type().(*types.Signature)
			_, ptr := sig.Recv().Type().(*types.Pointer)
			ms[m.Name()] = map[string]any{"key": objFuncKey(m), "ptr": ptr}
		}
		ent["methods"] = ms
		// full method set of *T (includes promoted methods), for devirtualising interface calls
		mset := map[string]any{}
		mset_ := types.NewMethodSet(types.NewPointer(x))
		for i := 0; i < mset_.Len(); i++ {
			sel := mset_.At(i)
			if fn, ok := sel.Obj().(*types.Func); ok {
				sig := fn.Type().(*types.Signature)
				_, ptr := sig.Recv().Type().(*types.Pointer)
				mset[fn.Name()] = map[string]any{"key": objFuncKey(fn), "index": sel.Index(), "ptrrecv": ptr}
			}
		}
		ent["mset"] = mset
	case *types.Alias:
		ent["k"] = "alias"
		ent["under"] = d.typeID(types.Unalias(x))
	case *types.Pointer:
		ent["k"] = "ptr"
		ent["elem"] = d.typeID(x.Elem())
	case *types.Slice:
		ent["k"] = "slice"
		ent["elem"] = d.typeID(x.Elem())
	case *types.Array:
		ent["k"] = "array"
		ent["elem"] = d.typeID(x.Elem())
		ent["len"] = x.Len()
	case *types.Map:
		ent["k"] = "map"
		ent["key"] = d.typeID(x.Key())
		ent["elem"] = d.typeID(x.Elem())
	case *types.Chan:
		ent["k"] = "chan"
		ent["elem"] = d.typeID(x.Elem())
	case *types.Struct:
		ent["k"] = "struct"
		var fs []any
		for i := 0; i < x.NumFields(); i++ {
			f := x.Field(i)
			fs = append(fs, map[string]any{"name": f.Name(), "t": d.typeID(f.Type()), "emb": f.Embedded()})
		}
		ent["fields"] = fs
	case *types.Interface:
		ent["k"] = "iface"
		var ms []any
		for i := 0; i < x.NumMethods(); i++ {
			m := x.Method(i)
			ms = append(ms, map[string]any{"name": m.Name(), "sig": d.typeID(m.Type())})
		}
		ent["methods"] = ms
		// full method set of *T (includes promoted methods), for devirtualising interface calls
		mset := map[string]any{}
		mset_ := types.NewMethodSet(types.NewPointer(x))
		for i := 0; i < mset_.Len(); i++ {
			sel := mset_.At(i)
			if fn, ok := sel.Obj().(*types.Func); ok {
				sig := fn.Type().(*types.Signature)
				_, ptr := sig.Recv().Type().(*types.Pointer)
				mset[fn.Name()] = map[string]any{"key": objFuncKey(fn), "index": sel.Index(), "ptrrecv": ptr}
			}
		}
		ent["mset"] = mset
	case *types.Signature:
		ent["k"] = "sig"
		ent["params"] = d.tuple(x.Params())
		ent["results"] = d.tuple(x.Results())
		ent["variadic"] = x.Variadic()
		if x.Recv() != nil {
			ent["recv"] = map[string]any{"name": x.Recv().Name(), "t": d.typeID(x.Recv().Type())}
		}
	case *types.Tuple:
		ent["k"] = "tuple"
		ent["elems"] = d.tuple(x)
	case *types.TypeParam:
		ent["k"] = "typeparam"
		ent["name"] = x.Obj().Name()
		ent["index"] = x.Index()
	default:
		ent["k"] = "other"
	}
	return id
}

func (d *dumper) tuple(t *types.Tuple) []any {
	var l []any
	if t == nil {
		return []any{}
	}
	for i := 0; i < t.Len(); i++ {
		v := t.At(i)
		l = append(l, map[string]any{"name": v.Name(), "t": d.typeID(v.Type()), "obj": d.objID(v)})
	}
	if l == nil {
		l = []any{}
	}
	return l
}

func basicBits(k types.BasicKind) int {
	switch k {
	case types.Int8, types.Uint8:
		return 8
	case types.Int16, types.Uint16:
		return 16
	case types.Int32, types.Uint32, types.Float32:
		return 32
	case types.Int, types.Uint, types.Int64, types.Uint64, types.Uintptr, types.Float64:
		return 64
	case types.UntypedInt, types.UntypedRune:
		return 0
	case types.UntypedFloat:
		return 0
	}
	return 0
}

// ---------------------------------------------------------------- objects

func (d *dumper) objID(o types.Object) int {
	if o == nil {
		return -1
	}
	if id, ok := d.objIDs[o]; ok {
		return id
	}
	id := len(d.objTab)
	ent := map[string]any{"id": id, "name": o.Name()}
	d.objIDs[o] = id
	d.objTab = append(d.objTab, ent)
	if o.Pkg() != nil {
		ent["pkg"] = o.Pkg().Path()
	}
	switch x := o.(type) {
	case *types.Var:
		ent["k"] = "var"
		ent["t"] = d.typeID(x.Type())
		ent["field"] = x.IsField()
		ent["global"] = !x.IsField() && x.Parent() != nil && x.Pkg() != nil && x.Parent() == x.Pkg().Scope()
	case *types.Const:
		ent["k"] = "const"
		ent["t"] = d.typeID(x.Type())
		ent["cv"] = constVal(x.Val())
	case *types.Func:
		ent["k"] = "func"
		ent["key"] = objFuncKey(x)
		ent["t"] = d.typeID(x.Type())
		sig := x.Type().(*types.Signature)
		if sig.Recv() != nil {
			if _, isI := sig.Recv().Type().Underlying().(*types.Interface); isI {
				ent["iface"] = true
			}
		}
	case *types.TypeName:
		ent["k"] = "type"
		ent["t"] = d.typeID(x.Type())
	case *types.PkgName:
		ent["k"] = "pkgname"
		ent["path"] = x.Imported().Path()
	case *types.Builtin:
		ent["k"] = "builtin"
	case *types.Nil:
		ent["k"] = "nil"
	case *types.Label:
		ent["k"] = "label"
	}
	return id
}

func constVal(v constant.Value) any {
	if v == nil {
		return nil
	}
	switch v.Kind() {
	case constant.Bool:
		return map[string]any{"k": "bool", "v": constant.BoolVal(v)}
	case constant.String:
		return map[string]any{"k": "string", "v": []byte(constant.StringVal(v))}
	case constant.Int:
		return map[string]any{"k": "int", "v": v.ExactString()}
	case constant.Float:
		f, _ := constant.Float64Val(v)
		return map[string]any{"k": "float", "v": v.ExactString(), "f64": fmt.Sprintf("%x", f)}
	}
	return map[string]any{"k": "other", "v": v.String()}
}

// ---------------------------------------------------------------- AST

var (
	nodeType = reflect.TypeOf((*ast.Node)(nil)).Elem()
	posType  = reflect.TypeOf(token.Pos(0))
	tokType  = reflect.TypeOf(token.Token(0))
)

func (d *dumper) node(n ast.Node) map[string]any {
	if n == nil || reflect.ValueOf(n).IsNil() {
		return nil
	}
	v := reflect.ValueOf(n).Elem()
	t := v.Type()
	out := map[string]any{"k": t.Name()}
	if n.Pos().IsValid() {
		out["ln"] = d.fset.Position(n.Pos()).Line
	}
	for i := 0; i < t.NumField(); i++ {
		f := t.Field(i)
		fv := v.Field(i)
		switch {
		case f.Type == posType:
			// keep only presence flags that matter
			if f.Name == "Ellipsis" || f.Name == "Lparen" && t.Name() == "GenDecl" {
				out[f.Name] = fv.Interface().(token.Pos).IsValid()
			}
			if t.Name() == "BlockStmt" && f.Name == "Lbrace" {
				out["lbrace"] = int(fv.Interface().(token.Pos))
			}
		case f.Type == tokType:
			out[f.Name] = fv.Interface().(token.Token).String()
		case f.Type.Kind() == reflect.String:
			out[f.Name] = fv.String()
		case f.Type.Kind() == reflect.Bool:
			out[f.Name] = fv.Bool()
		case f.Type.Kind() == reflect.Int:
			out[f.Name] = fv.Int()
		case f.Type.Implements(nodeType):
			if f.Name == "Doc" || f.Name == "Comment" {
				continue
			}
			if !fv.IsNil() {
				out[f.Name] = d.node(fv.Interface().(ast.Node))
			}
		case f.Type.Kind() == reflect.Slice && f.Type.Elem().Implements(nodeType):
			l := []any{}
			for j := 0; j < fv.Len(); j++ {
				ev := fv.Index(j)
				if ev.IsNil() {
					l = append(l, nil)
				} else {
					l = append(l, d.node(ev.Interface().(ast.Node)))
				}
			}
			out[f.Name] = l
		}
	}
	if e, ok := n.(ast.Expr); ok {
		if tv, ok := d.info.Types[e]; ok {
			out["t"] = d.typeID(tv.Type)
			if tv.Value != nil {
				out["cv"] = constVal(tv.Value)
			}
			if tv.IsType() {
				out["istype"] = true
			}
			if tv.IsBuiltin() {
				out["isbuiltin"] = true
			}
			if tv.IsNil() {
				out["isnil"] = true
			}
		}
	}
	switch x := n.(type) {
	case *ast.Ident:
		var o types.Object
		if o = d.info.Defs[x]; o == nil {
			o = d.info.Uses[x]
		}
		if o != nil {
			out["obj"] = d.objID(o)
			if _, ok := out["t"]; !ok {
				out["t"] = d.typeID(o.Type())
			}
		}
		if inst, ok := d.info.Instances[x]; ok {
			var l []int
			for i := 0; i < inst.TypeArgs.Len(); i++ {
				l = append(l, d.typeID(inst.TypeArgs.At(i)))
			}
			out["targs"] = l
		}
		delete(out, "Obj")
	case *ast.SelectorExpr:
		if sel, ok := d.info.Selections[x]; ok {
			s := map[string]any{"index": sel.Index(), "indirect": sel.Indirect(), "obj": d.objID(sel.Obj()), "recv": d.typeID(sel.Recv())}
			switch sel.Kind() {
			case types.FieldVal:
				s["kind"] = "field"
			case types.MethodVal:
				s["kind"] = "method"
			case types.MethodExpr:
				s["kind"] = "methodexpr"
			}
			out["sel"] = s
		}
	case *ast.CallExpr:
		if tv, ok := d.info.Types[x.Fun]; ok && tv.IsType() {
			out["call"] = "conv"
		} else if tv.IsBuiltin() {
			out["call"] = "builtin"
			out["builtin"] = builtinName(x.Fun)
		} else if f, ok := typeutil.Callee(d.info, x).(*types.Func); ok && f != nil {
			out["callee"] = objFuncKey(f)
			sig := f.Type().(*types.Signature)
			if sig.Recv() != nil {
				if _, isI := sig.Recv().Type().Underlying().(*types.Interface); isI {
					out["call"] = "iface"
				} else {
					out["call"] = "method"
				}
			} else {
				out["call"] = "func"
			}
		} else {
			out["call"] = "dynamic"
		}
	case *ast.CompositeLit:
		// nothing extra; type in "t"
	case *ast.FuncLit:
		// record captured nothing; executor resolves by object ids
	case *ast.TypeSwitchStmt:
		// implicit objects per clause
		for _, cc := range x.Body.List {
			if o := d.info.Implicits[cc]; o != nil {
				// attach by line; the executor matches by order
				_ = o
			}
		}
		var l []any
		for _, cc := range x.Body.List {
			if o := d.info.Implicits[cc]; o != nil {
				l = append(l, d.objID(o))
			} else {
				l = append(l, -1)
			}
		}
		out["implicits"] = l
	case *ast.RangeStmt:
		if tv, ok := d.info.Types[x.X]; ok {
			out["xt"] = d.typeID(tv.Type)
		}
	}
	if idx, ok := d.loopIdx[n]; ok {
		out["loop"] = idx
	}
	return out
}

func builtinName(e ast.Expr) string {
	switch x := e.(type) {
	case *ast.Ident:
		return x.Name
	case *ast.ParenExpr:
		return builtinName(x.X)
	case *ast.SelectorExpr:
		return "unsafe." + x.Sel.Name
	}
	return "?"
}

func sortedKeys(m map[string]any) []string {
	var l []string
	for k := range m {
		l = append(l, k)
	}
	sort.Strings(l)
	return l
}
