package main

import (
	"crypto/sha1"
	"fmt"
	"go/ast"
	"go/parser"
	"go/token"
	"go/types"
	"regexp"
	"strconv"
	"strings"

	"golang.org/x/tools/go/packages"
)

type contractSrc struct {
	text string
	pos  token.Pos
	file string
}

type clause struct {
	kind  string // requires ensures invariant decreases assert
	label string
	text  string
	loop  int
	ln    int
	canary bool
}

// parseContracts turns the //@ lines of the guarded contract file(s) of one package into
// per-function contract records with type-checked clause ASTs.
func (d *dumper) parseContracts(p *packages.Package, lines []*contractSrc, decls map[string]*ast.FuncDecl) map[string]any {
	out := map[string]any{}
	var curKey string
	var cur map[string]any
	var clauses []*clause
	var last *clause
	flush := func() {
		if cur == nil {
			return
		}
		fd := decls[curKey]
		if _, isIface := cur["flags"].(map[string]any)["iface"]; isIface {
			out[curKey] = cur
			return
		}
		if fd == nil {
			cur["error"] = "no such function in package: " + curKey
			d.errors = append(d.errors, fmt.Sprintf("%s: contract for unknown function %s", p.PkgPath, curKey))
			out[curKey] = cur
			return
		}
		loops := collectLoops(fd)
		cur["nloops"] = len(loops)
		var cl []any
		results := make([]map[string]any, len(clauses))
		for i, c := range clauses {
			results[i] = d.checkClause(p, fd, loops, c)
		}
		// Loop clauses are keyed by loop ordinal. When a refactoring inserts or removes a loop the ordinals shift: if
		// the clauses of ordinal N no longer type-check at loop N but all of them do at another loop (nearest first),
		// they are re-bound there (recorded as rebound_from).
		groups := map[int][]int{}
		for i, c := range clauses {
			if c.loop > 0 {
				groups[c.loop] = append(groups[c.loop], i)
			}
		}
		firstBad := 0
		for n, idxs := range groups {
			for _, i := range idxs {
				if results[i]["err"] != nil && (firstBad == 0 || n < firstBad) {
					firstBad = n
				}
			}
		}
		if firstBad > 0 {
			for _, shift := range []int{1, -1, 2, -2, 3} {
				ok := true
				alt := map[int]map[string]any{}
				for n, idxs := range groups {
					if n < firstBad {
						continue
					}
					m := n + shift
					if m < 1 || m > len(loops) {
						ok = false
						break
					}
					for _, i := range idxs {
						c2 := *clauses[i]
						c2.loop = m
						r := d.checkClause(p, fd, loops, &c2)
						if r["err"] != nil {
							ok = false
							break
						}
						r["rebound_from"] = n
						alt[i] = r
					}
					if !ok {
						break
					}
				}
				if ok {
					for i, r := range alt {
						results[i] = r
					}
					break
				}
			}
		}
		for _, r := range results {
			cl = append(cl, r)
		}
		cur["clauses"] = cl
		out[curKey] = cur
	}
	kw := regexp.MustCompile(`^\s*(func|iface|requires|ensures|loop|trusted|pure|abstract|stub|opaque|canary|assume|modifies|nosafety|noframe|unfold|inline|bounded|note|paths|trusts|allocates|waits|cover|emits|observe|dispatch|operation)\b(.*)$`)
	for _, l := range lines {
		m := kw.FindStringSubmatch(l.text)
		if m == nil {
			// continuation line
			if last != nil {
				last.text += " " + strings.TrimSpace(l.text)
			}
			continue
		}
		rest := strings.TrimSpace(m[2])
		ln := d.fset.Position(l.pos).Line
		switch m[1] {
		case "func":
			flush()
			curKey = rest
			cur = map[string]any{"key": rest, "ln": ln, "flags": map[string]any{}}
			clauses = nil
			last = nil
		case "iface":
			// iface T.M : contract block of an interface method, keyed (T).M
			flush()
			parts := strings.SplitN(rest, ".", 2)
			if len(parts) != 2 {
				d.errors = append(d.errors, fmt.Sprintf("%s:%d: bad iface clause %q", l.file, ln, rest))
				cur = nil
				continue
			}
			curKey = "(" + parts[0] + ")." + parts[1]
			cur = map[string]any{"key": curKey, "ln": ln, "flags": map[string]any{"iface": true}}
			clauses = nil
			last = nil
		case "trusted", "pure", "abstract", "stub", "opaque", "nosafety", "noframe", "inline", "bounded", "note", "modifies", "unfold", "paths", "emits", "observe", "dispatch", "operation":
			if cur != nil {
				cur["flags"].(map[string]any)[m[1]] = rest
			}
			last = nil
		case "requires", "ensures", "assume", "canary", "trusts", "allocates", "waits", "cover":
			c := &clause{kind: m[1], ln: ln}
			if m[1] == "canary" {
				// "canary ensures [label] expr"
				c.canary = true
				rest = strings.TrimSpace(strings.TrimPrefix(rest, "ensures"))
				c.kind = "ensures"
			}
			c.label, c.text = splitLabel(rest)
			clauses = append(clauses, c)
			last = c
		case "loop":
			// loop N invariant [label] expr | loop N decreases expr | loop N unroll K
			f := strings.Fields(rest)
			if len(f) < 2 {
				d.errors = append(d.errors, fmt.Sprintf("%s:%d: bad loop clause", l.file, ln))
				continue
			}
			n, _ := strconv.Atoi(f[0])
			body := strings.TrimSpace(strings.TrimPrefix(strings.TrimSpace(strings.TrimPrefix(rest, f[0])), f[1]))
			c := &clause{kind: f[1], loop: n, ln: ln}
			if f[1] == "unroll" || f[1] == "schema" {
				c.text = body
			} else {
				c.label, c.text = splitLabel(body)
			}
			clauses = append(clauses, c)
			last = c
		}
	}
	flush()
	return out
}

func splitLabel(s string) (string, string) {
	s = strings.TrimSpace(s)
	if strings.HasPrefix(s, "[") {
		if i := strings.Index(s, "]"); i > 0 {
			return s[1:i], strings.TrimSpace(s[i+1:])
		}
	}
	return "", s
}

func collectLoops(fd *ast.FuncDecl) []ast.Stmt {
	var loops []ast.Stmt
	if fd.Body == nil {
		return nil
	}
	ast.Inspect(fd.Body, func(n ast.Node) bool {
		switch n.(type) {
		case *ast.ForStmt, *ast.RangeStmt:
			loops = append(loops, n.(ast.Stmt))
		}
		return true
	})
	return loops
}

func (d *dumper) checkClause(p *packages.Package, fd *ast.FuncDecl, loops []ast.Stmt, c *clause) map[string]any {
	out := map[string]any{"kind": c.kind, "label": c.label, "text": c.text, "ln": c.ln, "loop": c.loop, "canary": c.canary}
	if c.label == "" {
		h := sha1.Sum([]byte(c.kind + "|" + c.text))
		out["label"] = fmt.Sprintf("%x", h[:3])
	}
	if c.kind == "unroll" || c.kind == "schema" {
		return out
	}
	pos := fd.Body.Lbrace + 1
	if c.loop > 0 {
		if c.loop > len(loops) {
			out["err"] = fmt.Sprintf("function has %d loops, clause names loop %d", len(loops), c.loop)
			return out
		}
		switch l := loops[c.loop-1].(type) {
		case *ast.ForStmt:
			pos = l.Body.Lbrace + 1
			if c.kind == "preserves" || c.kind == "exits" {
				// a per-iteration clause is evaluated where the body ends: variables declared at the top
				// level of the body are in scope
				pos = l.Body.Rbrace
			}
		case *ast.RangeStmt:
			pos = l.Body.Lbrace + 1
			if c.kind == "preserves" || c.kind == "exits" {
				pos = l.Body.Rbrace
			}
		}
	}
	// result types
	var resTypes []string
	if obj, ok := p.TypesInfo.Defs[fd.Name].(*types.Func); ok {
		sig := obj.Type().(*types.Signature)
		q := func(pk *types.Package) string {
			if pk == p.Types {
				return ""
			}
			return pk.Name()
		}
		for i := 0; i < sig.Results().Len(); i++ {
			resTypes = append(resTypes, types.TypeString(sig.Results().At(i).Type(), q))
		}
	}
	src, err := rewriteClause(c.text, resTypes)
	if err != nil {
		out["err"] = err.Error()
		return out
	}
	out["go"] = src
	expr, err := parser.ParseExprFrom(d.fset, "clause", src, 0)
	if err != nil {
		out["err"] = "parse: " + err.Error() + " in: " + src
		return out
	}
	info := &types.Info{
		Types:      map[ast.Expr]types.TypeAndValue{},
		Defs:       map[*ast.Ident]types.Object{},
		Uses:       map[*ast.Ident]types.Object{},
		Selections: map[*ast.SelectorExpr]*types.Selection{},
		Instances:  map[*ast.Ident]types.Instance{},
		Implicits:  map[ast.Node]types.Object{},
	}
	if err := types.CheckExpr(d.fset, p.Types, pos, expr, info); err != nil {
		out["err"] = "typecheck: " + err.Error() + " in: " + src
		return out
	}
	saved := d.info
	d.info = info
	out["expr"] = d.node(expr)
	d.info = saved
	return out
}

// ---------------------------------------------------------------- clause rewriting

var identRe = regexp.MustCompile(`\b(old|fresh|result[0-9]*)\b`)

func rewriteClause(s string, resTypes []string) (string, error) {
	s = strings.TrimSpace(s)
	r, err := rw(s)
	if err != nil {
		return "", err
	}
	var rerr error
	r = replaceOutsideLiterals(r, func(seg string) string {
		return identRe.ReplaceAllStringFunc(seg, func(m string) string {
			if m == "old" {
				return "zzOld"
			}
			if m == "fresh" {
				return "zzFresh"
			}
			idx := 0
			if m != "result" {
				idx, _ = strconv.Atoi(m[len("result"):])
			}
			if idx >= len(resTypes) {
				rerr = fmt.Errorf("%s: function has %d results", m, len(resTypes))
				return m
			}
			return fmt.Sprintf("zzResult[%s](%d)", resTypes[idx], idx)
		})
	})
	return r, rerr
}

// replaceOutsideLiterals applies f to the parts of s that are not inside string or rune literals.
func replaceOutsideLiterals(s string, f func(string) string) string {
	var b strings.Builder
	i := 0
	start := 0
	for i < len(s) {
		ch := s[i]
		if ch == '"' || ch == '\'' || ch == '`' {
			b.WriteString(f(s[start:i]))
			j := skipLiteral(s, i)
			b.WriteString(s[i:j])
			i = j
			start = j
			continue
		}
		i++
	}
	b.WriteString(f(s[start:]))
	return b.String()
}

func skipLiteral(s string, i int) int {
	q := s[i]
	j := i + 1
	for j < len(s) {
		if s[j] == '\\' && q != '`' {
			j += 2
			continue
		}
		if s[j] == q {
			return j + 1
		}
		j++
	}
	return len(s)
}

// findTop returns the index of the first occurrence of op at nesting depth 0, or -1.
func findTop(s, op string) int {
	depth := 0
	for i := 0; i < len(s); i++ {
		ch := s[i]
		switch ch {
		case '"', '\'', '`':
			i = skipLiteral(s, i) - 1
			continue
		case '(', '[', '{':
			depth++
		case ')', ']', '}':
			depth--
		}
		if depth == 0 && strings.HasPrefix(s[i:], op) {
			if op == "==>" && i > 0 && s[i-1] == '<' {
				continue
			}
			return i
		}
	}
	return -1
}

// findTopQuantConjunct returns the index of a top-level "forall "/"exists " that directly follows a top-level "&&".
func findTopQuantConjunct(s string) int {
	depth := 0
	for i := 0; i < len(s); i++ {
		ch := s[i]
		switch ch {
		case '"', '\'', '`':
			i = skipLiteral(s, i) - 1
			continue
		case '(', '[', '{':
			depth++
		case ')', ']', '}':
			depth--
		}
		if depth == 0 && strings.HasPrefix(s[i:], "&&") {
			rest := strings.TrimLeft(s[i+2:], " \t")
			if strings.HasPrefix(rest, "forall ") || strings.HasPrefix(rest, "exists ") {
				return len(s) - len(rest)
			}
		}
	}
	return -1
}

func rw(s string) (string, error) {
	s = strings.TrimSpace(s)
	if strings.HasPrefix(s, "forall ") || strings.HasPrefix(s, "exists ") {
		q := "zzForall"
		if strings.HasPrefix(s, "exists ") {
			q = "zzExists"
		}
		i := findTop(s, "::")
		if i < 0 {
			return "", fmt.Errorf("quantifier without '::' in %q", s)
		}
		vars := strings.Split(s[len("forall "):i], ",")
		body, err := rw(s[i+2:])
		if err != nil {
			return "", err
		}
		for k := len(vars) - 1; k >= 0; k-- {
			f := strings.Fields(vars[k])
			name, typ := "", "int"
			switch len(f) {
			case 1:
				name = f[0]
			case 2:
				name, typ = f[0], f[1]
			default:
				return "", fmt.Errorf("bad quantified variable %q", vars[k])
			}
			body = fmt.Sprintf("%s(func(%s %s) bool { return %s })", q, name, typ, body)
		}
		return body, nil
	}
	// a quantifier as the last conjunct: A && B && forall x :: P   (its body extends to the end of the clause);
	// it binds tighter than an implication to its left, looser than one inside its own body
	if q := findTopQuantConjunct(s); q > 0 {
		p1, p2 := findTop(s, "==>"), findTop(s, "<==>")
		if (p1 < 0 || q < p1) && (p2 < 0 || q < p2) {
			head := strings.TrimSpace(s[:q])
			head = strings.TrimSpace(strings.TrimSuffix(head, "&&"))
			a, err := rw(head)
			if err != nil {
				return "", err
			}
			b, err := rw(s[q:])
			if err != nil {
				return "", err
			}
			return fmt.Sprintf("(%s) && %s", a, b), nil
		}
	}
	if i := findTop(s, "<==>"); i >= 0 {
		a, err := rw(s[:i])
		if err != nil {
			return "", err
		}
		b, err := rw(s[i+4:])
		if err != nil {
			return "", err
		}
		return fmt.Sprintf("((%s) == (%s))", a, b), nil
	}
	if i := findTop(s, "==>"); i >= 0 {
		a, err := rw(s[:i])
		if err != nil {
			return "", err
		}
		b, err := rw(s[i+3:])
		if err != nil {
			return "", err
		}
		return fmt.Sprintf("zzImp(%s, %s)", a, b), nil
	}
	// no top-level logical operator: rewrite inside bracket groups
	var b strings.Builder
	for i := 0; i < len(s); {
		ch := s[i]
		switch ch {
		case '"', '\'', '`':
			j := skipLiteral(s, i)
			b.WriteString(s[i:j])
			i = j
			continue
		case '(', '[', '{':
			j := matchClose(s, i)
			if j < 0 {
				return "", fmt.Errorf("unbalanced %q in %q", string(ch), s)
			}
			inner := s[i+1 : j]
			if ch == '(' {
				parts := splitTopCommas(inner)
				b.WriteByte('(')
				for k, part := range parts {
					if k > 0 {
						b.WriteString(", ")
					}
					r, err := rw(part)
					if err != nil {
						return "", err
					}
					b.WriteString(r)
				}
				b.WriteByte(')')
			} else {
				r, err := rw(inner)
				if err != nil {
					return "", err
				}
				b.WriteByte(ch)
				b.WriteString(r)
				b.WriteByte(s[j])
			}
			i = j + 1
			continue
		}
		b.WriteByte(ch)
		i++
	}
	return b.String(), nil
}

func splitTopCommas(s string) []string {
	var parts []string
	depth := 0
	start := 0
	for i := 0; i < len(s); i++ {
		switch s[i] {
		case '"', '\'', '`':
			i = skipLiteral(s, i) - 1
		case '(', '[', '{':
			depth++
		case ')', ']', '}':
			depth--
		case ',':
			if depth == 0 {
				parts = append(parts, s[start:i])
				start = i + 1
			}
		}
	}
	parts = append(parts, s[start:])
	if len(parts) == 1 && strings.TrimSpace(parts[0]) == "" {
		return nil
	}
	return parts
}

func matchClose(s string, i int) int {
	depth := 0
	for j := i; j < len(s); j++ {
		switch s[j] {
		case '"', '\'', '`':
			j = skipLiteral(s, j) - 1
		case '(', '[', '{':
			depth++
		case ')', ']', '}':
			depth--
			if depth == 0 {
				return j
			}
		}
	}
	return -1
}
