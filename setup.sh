#!/bin/sh
# placeholder; replaced when frontend exists
exit 0
