#!/bin/sh
# Builds the govc front end (bin/goast) offline from the vendored sources with go1.26.8 and checks the back-end tools.
set -e
cd "$(dirname "$0")"
export PATH=/opt/veriftools/go1.26.8/bin:$PATH GOFLAGS=-mod=vendor GOPROXY=off GOSUMDB=off GOTOOLCHAIN=local
mkdir -p bin evidence replays
(cd frontend && go build -o ../bin/goast .)
python3-vt -c "import z3; assert z3.get_version_string().startswith('5.'), z3.get_version_string()"
for t in z3 z3-new cvc5; do command -v $t >/dev/null || { echo "missing solver $t" >&2; exit 1; }; done
echo "govc setup ok"
