python3 - <<'PY'
p='hsms/control_msg.go'; s=open(p).read()
a=s.index('func NewSelectRsp'); b=s.index('header[3] = selectStatus', a)
s=s[:b]+'header[2] = selectStatus'+s[b+len('header[3] = selectStatus'):]
open(p,'w').write(s)
PY
