python3 - <<'PY'
p='hsms/control_msg.go'; s=open(p).read()
a=s.index('func (msg *ControlMessage) WithSessionID'); b=s.index('binary.BigEndian.PutUint16(n.header[0:2], id)', a)
s=s[:b]+'binary.LittleEndian.PutUint16(n.header[0:2], id)'+s[b+len('binary.BigEndian.PutUint16(n.header[0:2], id)'):]
open(p,'w').write(s)
PY
