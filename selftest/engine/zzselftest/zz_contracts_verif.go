//go:build verif

package zzselftest

func zzOld[T any](x T) T             { return x }
func zzImp(a, b bool) bool           { return !a || b }
func zzFresh(x any) bool             { return true }
func zzResult[T any](i int) (zero T) { panic("spec only") }
func zzCalls(name string) int        { panic("spec only") }

// ---- contracts ----

//@ func (*S).setA
//@ requires s != nil
//@ ensures [set] s.a == 1

//@ func staleCaller
//@ requires s != nil
//@ modifies s.a
//@ ensures [one] result == 1

//@ func coverDead
//@ requires x > 0
//@ cover [neg] result == 0
//@ cover [pos] result == 1

//@ func foldEarly
//@ ensures [bogus] !result1 ==> len(xs) == 0
//@ ensures [ok]    result1 ==> len(result0) == len(xs)

//@ func libBranch
//@ ensures [bogus] result != -1

//@ func loopCount
//@ ensures [bogus] zzCalls("fn:f") == 0

//@ func inner
//@ ensures [t] true

//@ func outer
//@ ensures [bogus] zzCalls("fn:f") == 0

//@ func parks
//@ waits [ctx] ctx

//@ func mk
//@ ensures [fresh] result != nil && fresh(result) && result.p != nil && fresh(result.p)

//@ func useMk
//@ ensures [bogus] !result

//@ func okSet
//@ requires s != nil
//@ modifies s.a
//@ ensures [set] s.a == 1 && s.b == old(s.b)

//@ func okParks
//@ requires ctx != nil
//@ waits [ctx] ctx

func zzIter() int { panic("spec only") }

//@ func rangeCount
//@ ensures [bogus] zzCalls("fn:f") == 0

//@ func rangeCountOK
//@ loop 1 invariant [n] zzCalls("fn:f") == zzIter()
//@ ensures [all] zzCalls("fn:f") == len(xs)

//@ func firstNeg
//@ loop 1 invariant [i] 0 <= i && i <= len(xs)
//@ loop 1 exits [bogus] result > i
//@ loop 1 exits [ok] result == i && xs[result] < 0

//@ func acc
//@ requires 0 <= n && n <= 1000
//@ loop 1 invariant [i] 0 <= i && i <= n
//@ loop 1 preserves [bogus] s == old(s)+1
//@ loop 1 preserves [ok] s == old(s)+2 && i == old(i)+1

//@ func useHelper
//@ ensures [iff] result == (n >= 10 && n <= 100)

//@ func jumpy
//@ requires 3 <= n && n <= 100
//@ ensures [bogus] result == n

//@ func steady
//@ requires 0 <= n && n <= 100
//@ ensures [ok] result0 == n && result1 == 3 + 2*n

//@ func carve
//@ ensures [nn] result != nil

//@ func carveOK
//@ requires 0 <= i && i < len(cs)
//@ ensures [nn] result != nil

//@ func carveUse
//@ requires 0 <= i && i < len(cs)
//@ ensures [any] result == result
