//go:build verif

// Package zzselftest is the must-fail corpus of the govc engine: tiny functions whose contracts contain one
// deliberately false (or deliberately vacuous) claim each. tools/selftest_engine.sh copies it into a scratch copy
// of /repo and checks that exactly the expected obligations fail. It is never part of /repo.
package zzselftest

import (
	"context"
	"fmt"
	"strings"
)

type S struct{ a, b int }

// 1. a callee whose `modifies` omits a field it writes: its own frame obligation fails, and a caller that keeps the
// stale field is flagged by the call-post-consistent guard instead of verifying vacuously.
func (s *S) setA() { s.a = 1 }

func staleCaller(s *S) int {
	s.a = 0
	s.setA()
	return s.a
}

// 2. an unreachable cover.
func coverDead(x int) int {
	if x > 0 {
		return 1
	}
	return 0
}

// 3. early return inside a summarised append loop: a false claim about that path must fail (V5).
func foldEarly(xs []int) ([]int, bool) {
	var out []int
	for _, v := range xs {
		if v < 0 {
			return nil, false
		}
		out = append(out, v)
	}
	return out, true
}

// 4. a library-model fact of one branch must not kill the other branch (V6).
func libBranch(s string) int {
	i := strings.IndexByte(s, '>')
	if i == -1 {
		return -1
	}
	_ = strings.Fields(s[:i])
	return i
}

// 5. an operation performed inside a loop is not "performed zero times".
func loopCount(n int, f func()) {
	for i := 0; i < n; i++ {
		f()
	}
}

// 6. an operation performed by a callee under contract is seen by its caller although nothing declares it.
func inner(f func()) { f() }

func outer(f func()) { inner(f) }

// 7. a parking select that does not wait on the declared context.
func parks(ctx context.Context, ch chan int) int {
	select {
	case v := <-ch:
		return v
	}
}

// 8. fields of an object a callee allocated may point to other fresh objects (V1): the caller must not become
// vacuous after the call.
type U struct{ n int }
type T struct{ p *U }

func mk() *T { return &T{p: &U{}} }

func useMk() bool {
	t := mk()
	return t.p != nil
}

// positive controls: these must verify.
func okSet(s *S) { s.a = 1 }

func okParks(ctx context.Context, ch chan int) int {
	select {
	case v := <-ch:
		return v
	case <-ctx.Done():
		return 0
	}
}

// 9. counted operations inside a range loop.
func rangeCount(xs []int, f func(int)) {
	for _, x := range xs {
		f(x)
	}
}

func rangeCountOK(xs []int, f func(int)) {
	for _, x := range xs {
		f(x)
	}
}

// 10. `exits` clauses hold at returns inside the loop.
func firstNeg(xs []int) int {
	for i := 0; i < len(xs); i++ {
		if xs[i] < 0 {
			return i
		}
	}
	return -1
}

// 11. per-iteration two-state clauses.
func acc(n int) int {
	s := 0
	for i := 0; i < n; i++ {
		s += 2
	}
	return s
}

// 12. a contract-less helper returning an error is inlined with its returns correlated to its branches.
func helperErr(n int) error {
	if n < 10 {
		return fmt.Errorf("too small: %d: %w", n, errSentinel)
	}
	if n > 100 {
		return fmt.Errorf("too large: %d", n)
	}

	return nil
}

var errSentinel = fmt.Errorf("sentinel")

func useHelper(n int) bool {
	if err := helperErr(n); err != nil {
		return false
	}

	return true
}

// 13. induction-variable facts apply only when nothing but the Post statement changes the counter.
func jumpy(n int) int {
	i := 0
	for ; i < n; i++ {
		if i == 2 {
			i = n + 5
		}
	}

	return i
}

func steady(n int, xs []byte) (int, int) {
	i, off := 0, 3
	for ; i < n; i, off = i+1, off+2 {
		_ = xs
	}

	return i, off
}

// 14. &s[i] is an opaque address: the index obligation is generated as for a read, the result is non-nil, and any
// access through the pointer inside the function under proof is refused (the slice-cell alias is not modelled).
type cell struct{ v int }

func carve(cs []cell, i int) *cell { return &cs[i] }

func carveOK(cs []cell, i int) *cell { return &cs[i] }

func carveUse(cs []cell, i int) int {
	p := &cs[i]

	return p.v
}
