python3 - <<'PY'
p='hsms/supervisor.go'; s=open(p).read()
old='''	case evT7Timeout:
		if cur == NotSelectedState {'''
new='''	case evT7Timeout:
		if cur == NotSelectedState || cur == SelectedState {'''
assert old in s
s=s.replace(old,new); open(p,'w').write(s)
PY
