sed -i 's/return inflight <= 0 \&\& recvNow <= sentAt/return inflight < 0 \&\& recvNow <= sentAt/' hsmsss/transport_procedures.go
