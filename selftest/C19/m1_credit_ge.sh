sed -i 's/if suppress \&\& (recvNow > sentAt || inflight > 0) {/if suppress \&\& (recvNow >= sentAt || inflight > 0) {/' hsmsss/transport_procedures.go
