#!/bin/bash
# runall.sh [tier] : every claimed check on the current tree, no evidence rewrite; prints one line per check and a total.
cd "$(dirname "$0")/.." || exit 2
TIER="${1:-quick}"; bad=0
for p in $(python3 -c "import json;print(' '.join(c['property_id'] for c in json.load(open('MANIFEST.json'))['checks']))"); do
  out=$(GOVC_NOEVIDENCE=1 GOVC_REPLAYDIR=/tmp/govc-try-replays ./check "$p" "$TIER" 2>&1); rc=$?
  echo "$out" | grep -v WARNING | grep "$TIER:\|failed:\|KNOWN" | cut -c1-260
  [ $rc -ne 0 ] && bad=$((bad+1))
done
echo "runall: $bad check(s) not green"; exit $bad
