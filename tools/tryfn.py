#!/usr/bin/env python3
"""tryfn.py <pkg,pkg> <func> [<func>...] : run the driver on a few functions (scratch props file, no evidence)."""
import json, os, subprocess, sys
ROOT = os.path.dirname(os.path.dirname(os.path.abspath(__file__)))
p = {"id": "TMP", "level": "proof", "packages": sys.argv[1].split(","), "functions": sys.argv[2:], "trusted_base": [], "not_carried": [], "assumptions": [],
     "manifest": {"level_text": "", "level_note": ""}, "claimed": False}
json.dump(p, open(os.path.join(ROOT, "props", "TMP.json"), "w"))
env = dict(os.environ, GOVC_NOEVIDENCE="1", GOVC_REPLAYDIR="/tmp/govc-try-replays")
r = subprocess.run([os.path.join(ROOT, "check"), "TMP", "quick"], env=env)
os.unlink(os.path.join(ROOT, "props", "TMP.json"))
sys.exit(r.returncode)
