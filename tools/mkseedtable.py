#!/usr/bin/env python3
"""Print the markdown table 'seeded change -> which check / obligation reports it' from seeded/*/meta.json."""
import json, os, glob
ROOT = os.path.dirname(os.path.dirname(os.path.abspath(__file__)))
print("| seeded change | what it does | check(s) run | reported by (first failing obligation) | input replayed |")
print("|---|---|---|---|---|")
n = c = 0
for f in sorted(glob.glob(os.path.join(ROOT, "seeded", "*", "meta.json"))):
    m = json.load(open(f))
    n += 1
    runs = m["runs"]
    chk = ", ".join(r["check"] for r in runs)
    hit = [r for r in runs if r.get("exit") == 1]
    if hit:
        c += 1
        ob = hit[0]["failed_obligations"][0]["obligation"] if hit[0]["failed_obligations"] else "?"
        rep = "yes" if any(r.get("replayed_on_real_code") for r in hit) else "no (no-failing-input-found)"
        by = "%s: `%s`" % (hit[0]["check"], ob)
    else:
        skipped = [r for r in runs if r.get("skipped")]
        by = "**not reported**" + (" (property not claimed)" if skipped and len(skipped) == len(runs) else "")
        rep = "-"
    title = m["title"].split("—", 1)[-1].strip()[:110]
    print("| %s | %s | %s | %s | %s |" % (m["seed"], title.replace("|", "/"), chk, by, rep))
print()
print("%d of %d seeded changes are reported." % (c, n))
