#!/bin/bash
# selftest_engine.sh : must-fail corpus for the govc engine (selftest/engine). Runs on a scratch copy of /repo, never
# touches /repo, writes no evidence. Exit 0 iff exactly the expected obligations fail.
cd "$(dirname "$0")/.." || exit 2
D=$(mktemp -d /tmp/govc-selftest-XXXXXX); trap 'rm -rf "$D"; rm -f props/ZZSELF.json' EXIT
rsync -a --exclude=.git /repo/ "$D/" && mkdir -p "$D/zzselftest" && cp selftest/engine/zzselftest/*.go "$D/zzselftest/"
python3 - <<'PY'
import json
e = json.load(open("selftest/engine/expected.json"))
json.dump({"id": "ZZSELF", "level": "proof", "packages": ["./zzselftest"], "functions": e["functions"], "trusted_base": [], "not_carried": [],
           "assumptions": [], "manifest": {"level_text": "", "level_note": ""}, "claimed": False}, open("props/ZZSELF.json", "w"))
PY
OUT=$(GOVC_REPO="$D" GOVC_NOEVIDENCE=1 GOVC_MAX_REPLAYS=0 GOVC_REPLAYDIR="$D/replays" ./check ZZSELF quick 2>&1)
echo "$OUT" | grep -v WARNING | grep "quick:\|failed:" | cut -c1-200
python3 - "$OUT" <<'PY'
import json, re, sys
out = sys.argv[1]
e = json.load(open("selftest/engine/expected.json"))
failed = set(re.sub(r"(@\d+|#\d+)", "", m) for m in re.findall(r"^\s*failed: (\S+) \[", out, re.M))
norm = lambda s: re.sub(r":call-post-consistent:.*$", ":call-post-consistent", s)
failed = set(norm(f) for f in failed)
want = set(e["must_fail"])
missing = sorted(w for w in want if not any(f.startswith(w) for f in failed))
extra = sorted(f for f in failed if not any(f.startswith(w) for w in want))
bad_pass = sorted(f for f in failed if any(f.startswith(p + ":") for p in e["must_pass_functions"]))
print("selftest-engine: %d expected failures seen, missing=%s unexpected=%s" % (len(want) - len(missing), missing, extra))
sys.exit(1 if (missing or extra or bad_pass) else 0)
PY
