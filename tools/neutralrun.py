#!/usr/bin/env python3
"""neutralrun.py <diff>... : apply a behaviour-preserving refactoring to /repo, run every check whose functions live in
the touched files, undo it. Any check that is not green is a false alarm (or the edit was not neutral): prints it."""
import json, os, re, subprocess, sys
ROOT = os.path.dirname(os.path.dirname(os.path.abspath(__file__)))
MAP = [("secs2/", ["C01", "C02", "C12", "C16"]), ("sml/", ["C14"]), ("hsms/decode.go", ["C03", "C04", "C12"]), ("hsms/data_msg.go", ["C03", "C12", "C07"]),
       ("hsms/control_msg.go", ["C03", "C08", "C12"]), ("internal/wire/", ["C03", "C12"]), ("secs1/transport.go", ["C09", "C17"]), ("secs1/", ["C17"]),
       ("hsmsss/transport_recv.go", ["C04", "C05", "C07", "C08"]), ("hsmsss/transport_procedures.go", ["C19", "C07", "C08"]), ("hsmsss/transport.go", ["C10"]), ("hsmsss/transport_control.go", ["C07", "C08"]),
       ("hsms/connection_send.go", ["C06", "C07", "C09", "C20"]), ("hsms/connection_runtime.go", ["C06", "C20"]),
       ("hsms/connection_lifecycle.go", ["C05", "C09", "C10", "C11", "C20"]), ("hsms/supervisor.go", ["C05"]), ("hsms/session.go", ["C06", "C07"]), ("hsms/reply_registry.go", ["C06"])]
env = dict(os.environ, GOVC_NOEVIDENCE="1", GOVC_REPLAYDIR="/tmp/govc-neutral-replays", GOVC_MAX_REPLAYS="0")
bad = 0
for d in [os.path.abspath(x) for x in sys.argv[1:]]:
    if subprocess.run(["git", "-C", "/repo", "status", "--porcelain"], capture_output=True, text=True).stdout.strip():
        sys.exit("/repo is dirty")
    files = re.findall(r"^\+\+\+ b/(\S+)", open(d).read(), re.M)
    checks = []
    for f in files:
        for pre, cs in MAP:
            if f.startswith(pre):
                checks += [c for c in cs if c not in checks]
                break
    if subprocess.run(["git", "-C", "/repo", "apply", "--ignore-whitespace", d]).returncode:
        print(os.path.basename(d), "DOES-NOT-APPLY"); continue
    res = []
    for c in checks:
        r = subprocess.run([os.path.join(ROOT, "check"), c, "quick"], capture_output=True, text=True, env=env)
        fails = re.findall(r"^\s*failed: (\S+) \[(\w+)\]", r.stdout + r.stderr, re.M)
        res.append((c, r.returncode, fails[:3]))
    subprocess.run(["git", "-C", "/repo", "checkout", "--", "."])
    alarms = [(c, f) for c, rc, f in res if rc != 0]
    bad += len(alarms)
    print(os.path.basename(d), files, "checks=%s" % ",".join(c for c, _, _ in res), "ALARMS=%s" % alarms if alarms else "green", flush=True)
print("neutralrun: %d alarm(s)" % bad)
