#!/usr/bin/env python3
"""deadpaths.py <prop>... : diagnostic (not a registered check). For every function under contract of the given
properties, report return paths whose path condition is unsatisfiable together with the facts assumed so far --
either genuinely dead code or a vacuity hole (contradictory assumed contract)."""
import sys, json, os, z3, multiprocessing
ROOT = os.path.dirname(os.path.dirname(os.path.abspath(__file__)))
sys.path.insert(0, ROOT); os.chdir(ROOT)
from vcgen import gast
from vcgen.verify import Verifier
from vcgen.driver import full_key, load_props

def one(a):
    short, = a
    prog = G["prog"]
    f = prog.funcs.get(full_key(short))
    if f is None or (f.contract is not None and "trusted" in f.contract.flags):
        return short, []
    v = Verifier(prog, G["cfg"])
    try:
        v.verify(f)
    except Exception as ex:
        return short, ["ERR %s" % str(ex)[:100]]
    out = []
    rets = getattr(v, "rets_for_events", None) or []
    for k, (s_, _) in enumerate(rets):
        sv = z3.Solver(); sv.set("timeout", 8000)
        for h in v.facts: sv.add(h)
        sv.add(s_.pc)
        r = sv.check()
        if r == z3.unsat:
            out.append("ret#%d/%d DEAD pc=%s" % (k, len(rets), str(z3.simplify(s_.pc))[:200].replace("\n", " ")))
    return short, out

G = {}
for pid in sys.argv[1:]:
    props = load_props(pid)
    G["prog"] = gast.load(props["packages"], repo="/repo"); G["cfg"] = props.get("config", {})
    with multiprocessing.get_context("fork").Pool(12) as pool:
        for short, out in pool.imap_unordered(one, [(s,) for s in props["functions"]]):
            for o in out:
                print(pid, short, o, flush=True)
    print(pid, "done", flush=True)
