#!/bin/bash
# confirm_seed.sh <seed-dir> : confirm a seeded change in a scratch worktree (never in /repo):
#   patch applies at /repo HEAD, library builds, full existing suite passes with it, demo fails with it and passes without.
# Writes <seed-dir>/confirm.json. The scratch worktree is removed afterwards.
set -u
SD="$(cd "$1" && pwd)"
export PATH=/opt/veriftools/go1.26.8/bin:$PATH GOFLAGS=-mod=mod GOPROXY=off GOSUMDB=off GOTOOLCHAIN=local
WT=$(mktemp -d /tmp/seedconfirm-XXXXXX)
rmdir "$WT"
git -C /repo worktree add -q --detach "$WT" HEAD || exit 2
trap 'git -C /repo worktree remove --force "$WT" >/dev/null 2>&1; rm -rf "$WT"' EXIT
cd "$WT"
pkgdir=$(head -5 "$SD/demo_test.go" | grep -oE '(secs2|hsms|hsmsss|secs1|sml|internal/[a-z]+|gem|integration)[a-z/0-9]*' | head -1)
[ -z "$pkgdir" ] && pkgdir=$(grep -m1 '^package ' "$SD/demo_test.go" | awk '{print $2}' | sed 's/_test$//')
tname=$(grep -oE 'func (Test[A-Za-z0-9_]+)' "$SD/demo_test.go" | head -1 | awk '{print $2}')
res() { echo "$1"; }
cp "$SD/demo_test.go" "$pkgdir/zz_demo_seed_test.go"
go test -vet=off -count=1 -timeout 300s -run "^${tname}\$" "./$pkgdir" >"$WT/.demo_clean.log" 2>&1; demo_clean=$?
applies=0; git apply "$SD/patch.diff" 2>"$WT/.apply.log" || applies=1
go build ./... >"$WT/.build.log" 2>&1; build=$?
go test -vet=off -count=1 -timeout 300s -run "^${tname}\$" "./$pkgdir" >"$WT/.demo_mut.log" 2>&1; demo_mut=$?
rm -f "$pkgdir/zz_demo_seed_test.go"
go test -vet=off -count=1 -timeout 25m ./... >"$WT/.suite.log" 2>&1; suite=$?
if [ $suite -ne 0 ]; then  # retry once: the suite has timing-dependent tests
  go test -vet=off -count=1 -timeout 25m ./... >"$WT/.suite2.log" 2>&1; suite=$?
fi
python3 - "$SD" "$pkgdir" "$tname" $applies $build $demo_clean $demo_mut $suite <<'PY'
import json,sys
sd,pkg,t,applies,build,dc,dm,suite=sys.argv[1:9]
ok = applies=="0" and build=="0" and dc=="0" and dm!="0" and suite=="0"
json.dump({"package":pkg,"demo_test":t,"patch_applies":applies=="0","builds":build=="0","demo_passes_without_change":dc=="0",
 "demo_fails_with_change":dm!="0","suite_passes_with_change":suite=="0","confirmed":ok,
 "commands":["git apply patch.diff (scratch worktree of /repo HEAD)","go build ./...","go test -vet=off -count=1 -run ^%s$ ./%s (with and without the change)"%(t,pkg),"go test -vet=off -count=1 -timeout 25m ./... (with the change; retried once on failure)"]},
 open(sd+"/confirm.json","w"),indent=1)
print(sd, "CONFIRMED" if ok else "NOT-CONFIRMED", applies,build,dc,dm,suite)
PY
