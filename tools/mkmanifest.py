#!/usr/bin/env python3
"""Regenerates MANIFEST.json from props/*.json (claimed checks) and props/not_applicable.json."""
import glob, json, os, subprocess
ROOT = os.path.dirname(os.path.dirname(os.path.abspath(__file__)))
ids = [json.loads(l)["id"] for l in open(os.path.join(ROOT, "properties.jsonl"))]
na = json.load(open(os.path.join(ROOT, "props", "not_applicable.json")))
checks = []
claimed = []
for pid in ids:
    p = os.path.join(ROOT, "props", pid + ".json")
    if not os.path.exists(p):
        continue
    d = json.load(open(p))
    if not d.get("claimed", True):
        continue
    m = d["manifest"]
    claimed.append(pid)
    checks.append({
        "property_id": pid,
        "quick_cmd": "./check %s quick" % pid,
        "thorough_cmd": "./check %s thorough" % pid,
        "evidence_file": "/verif/evidence/%s.json" % pid,
        "replay_cmd_template": "./check replay {path}",
        "engine": "govc",
        "level_claimed": {"category": d.get("level", "proof"), "text": m["level_text"], "design_ref": m.get("design_ref", "DESIGN.md section 4 " + pid)},
        "level_note": m["level_note"],
        "technique": m.get("technique", "contract-based deductive verification: weakest-precondition style VCs generated from the typed Go AST of /repo, discharged by z3/cvc5"),
    })
try:
    commits = subprocess.run(["git", "-C", "/repo", "log", "--format=%H %s"], capture_output=True, text=True).stdout.splitlines()
    hook_commits = [c.split()[0] for c in commits if " verif:" in c]
except Exception:
    hook_commits = []
man = {
    "version": 1,
    "setup_cmd": "./setup.sh",
    "hooks": {"guard": "verif", "enable": "-tags=verif",
              "baseline_off_cmd": "cd /repo && go test -mod=mod -vet=off -count=1 -timeout 25m ./...",
              "source_commits": hook_commits, "add_only": True},
    "engines": [{"name": "govc", "path": "/verif/check", "serves_properties": claimed,
                 "kind_free_text": "contract-based deductive verifier built in /verif: Go front end (go/types typed AST of /repo + //@ contract files under build tag verif, clauses type-checked with types.CheckExpr) -> Python symbolic executor (exact-width bit-vectors, region/heap arrays, modular calls against callee contracts, loop invariants) -> SMT VCs raced on z3 5.1.0 / z3 4.8.12 / cvc5 1.0; counterexamples replayed on the real code with go test -overlay"}],
    "checks": checks,
    "not_applicable": [{"property_id": i, "reason": na[i]} for i in ids if i not in claimed],
    "notes": "Every check regenerates its obligations from /repo's working tree on each run. Known findings: /verif/known_findings.json. See DESIGN.md.",
}
for i in ids:
    if i not in claimed and i not in na:
        raise SystemExit("property %s neither claimed nor in not_applicable.json" % i)
json.dump(man, open(os.path.join(ROOT, "MANIFEST.json"), "w"), indent=1)
print("claimed:", claimed)
