"""C16 section of the secs2 contract file (imported by gen_secs2_contracts.py)."""

SIGNED = ["int", "int8", "int16", "int32", "int64"]
UNSIGNED_SMALL = ["uint8", "uint16", "uint32"]
UNSIGNED_BIG = ["uint", "uint64"]
ALLINT = SIGNED + UNSIGNED_SMALL + UNSIGNED_BIG


def ident(t):
    return t.replace("[]", "S_")


def is_funcs(types):
    out = []
    for t in types:
        out.append("func specIs_%s(v any) bool { _, ok := v.(%s); return ok }\n" % (ident(t), t))
    return "".join(out)


HEAD = r'''
// ====================================================================================================
// C16: constructors clamp, never wrap; errored items are never equal and never reach a message
// ====================================================================================================

// Representable range of a signed integer of w bytes (SEMI E5: two's complement).
func specIntLo(w uint32) int64 {
	switch w {
	case 1:
		return -128
	case 2:
		return -32768
	case 4:
		return -2147483648
	}
	return -9223372036854775808
}

func specIntHi(w uint32) int64 {
	switch w {
	case 1:
		return 127
	case 2:
		return 32767
	case 4:
		return 2147483647
	}
	return 9223372036854775807
}

// Largest unsigned integer of w bytes.
func specUintHi(w uint32) uint64 {
	switch w {
	case 1:
		return 255
	case 2:
		return 65535
	case 4:
		return 4294967295
	}
	return 18446744073709551615
}

// specSatI: v saturated to [lo, hi] (nearest representable bound; identity inside the range).
func specSatI(v, lo, hi int64) int64 {
	if v < lo {
		return lo
	}
	if v > hi {
		return hi
	}
	return v
}

// specSatUtoI: an unsigned source saturated to [.., hi] (hi >= 0): compared unsigned, BEFORE any conversion.
func specSatUtoI(v uint64, hi int64) int64 {
	if v > uint64(hi) {
		return hi
	}
	return int64(v)
}

func specSatU(v, hi uint64) uint64 {
	if v > hi {
		return hi
	}
	return v
}

//@ func clampInt64
//@ inline
//@ requires minVal <= maxVal
//@ ensures [below] v < minVal ==> result == minVal
//@ ensures [above] minVal <= v && v > maxVal ==> result == maxVal
//@ ensures [id]    minVal <= v && v <= maxVal ==> result == v

//@ func clampUint64
//@ inline
//@ ensures [above] v > maxVal ==> result == maxVal
//@ ensures [id]    v <= maxVal ==> result == v

// specKeeps: new starts with the elements of old (appending never disturbs what was already collected).
func specKeepsI(nw, old []int64) bool {
	return len(nw) >= len(old) && zzForall(func(j int) bool { return zzImp(0 <= j && j < len(old), nw[j] == old[j]) })
}
func specKeepsU(nw, old []uint64) bool {
	return len(nw) >= len(old) && zzForall(func(j int) bool { return zzImp(0 <= j && j < len(old), nw[j] == old[j]) })
}

// An errored item is never equal to anything.
//@ func Equal
//@ ensures [nil]  (a == nil || b == nil) ==> result == (a == nil && b == nil)
//@ ensures [err]  a != nil && b != nil && (a.Error() != nil || b.Error() != nil) ==> !result
'''


def fast_path():
    out = [is_funcs(ALLINT + ["[]" + t for t in ALLINT] + ["string", "[]string", "float32", "float64", "[]float32", "[]float64"])]
    out.append("""
//@ func intScalarFastPath
//@ requires byteSize == 1 || byteSize == 2 || byteSize == 4 || byteSize == 8
//@ ensures [arity] len(values) != 1 ==> !ok
""")
    for t in SIGNED + UNSIGNED_SMALL:
        out.append("//@ ensures [%s] len(values) == 1 && specIs_%s(values[0]) ==> ok && clamped == specSatI(int64(values[0].(%s)), specIntLo(byteSize), specIntHi(byteSize))\n" % (t, t, t))
    for t in UNSIGNED_BIG:
        out.append("//@ ensures [%s] len(values) == 1 && specIs_%s(values[0]) ==> ok && clamped == specSatUtoI(uint64(values[0].(%s)), specIntHi(byteSize))\n" % (t, t, t))
    cond = " && ".join("!specIs_%s(values[0])" % t for t in ALLINT)
    out.append("//@ ensures [other] len(values) == 1 && %s ==> !ok\n" % cond)
    return "".join(out)


def int_slow():
    out = ["""
//@ func (*IntItem).combineIntValuesSlow
//@ paths split
//@ requires item != nil && minVal <= 0 && 0 <= maxVal
//@ modifies item.values
//@ ensures [keeps] result == nil ==> specKeepsI(item.values, old(item.values))
//@ ensures [alias] result == nil ==> fresh(item.values) || zzSameSlice(item.values[:0], old(item.values)[:0])
"""]
    lo = "len(old(item.values))"
    for t in ["int8", "int16", "int32"] + UNSIGNED_SMALL:
        out.append("//@ ensures [%s] specIs_%s(value) ==> result == nil && len(item.values) == %s+1 && item.values[%s] == specSatI(int64(value.(%s)), minVal, maxVal)\n" % (t, t, lo, lo, t))
        out.append("//@ ensures [%ss] specIs_S_%s(value) ==> result == nil && len(item.values) == %s+len(value.([]%s)) &&\n//@     forall k :: 0 <= k && k < len(value.([]%s)) ==> item.values[%s+k] == specSatI(int64(value.([]%s)[k]), minVal, maxVal)\n" % (t, t, lo, t, t, lo, t))
    for t in UNSIGNED_BIG:
        out.append("//@ ensures [%s] specIs_%s(value) ==> result == nil && len(item.values) == %s+1 && item.values[%s] == specSatUtoI(uint64(value.(%s)), maxVal)\n" % (t, t, lo, lo, t))
        out.append("//@ ensures [%ss] specIs_S_%s(value) ==> result == nil && len(item.values) == %s+len(value.([]%s)) &&\n//@     forall k :: 0 <= k && k < len(value.([]%s)) ==> item.values[%s+k] == specSatUtoI(uint64(value.([]%s)[k]), maxVal)\n" % (t, t, lo, t, t, lo, t))
    handled = ["int8", "int16", "int32"] + UNSIGNED_SMALL + UNSIGNED_BIG
    cond = " && ".join(["!specIs_%s(value) && !specIs_S_%s(value)" % (t, t) for t in handled] + ["!specIs_string(value)", "!specIs_S_string(value)"])
    out.append("//@ ensures [other] %s ==> result != nil\n" % cond)
    out.append("//@ ensures [range] result == nil ==> forall j :: len(old(item.values)) <= j && j < len(item.values) ==> minVal <= item.values[j] && item.values[j] <= maxVal\n")
    return "".join(out)


CTOR = r'''
// --- constructors hand out items that satisfy the representation invariants the encoders rely on ---

//@ func (*baseItem).setError
//@ inline

//@ func (*baseItem).setErrorMsg
//@ requires b != nil
//@ modifies b.itemErr
//@ ensures [set] b.itemErr != nil

//@ func (*IntItem).combineIntValues
//@ requires item != nil && (item.byteSize == 1 || item.byteSize == 2 || item.byteSize == 4 || item.byteSize == 8)
//@ modifies item.values
//@ ensures [own]   result == nil ==> fresh(item.values)
//@ trusts  [lt2g]  len(item.values) < 1<<31
//@ loop 1 invariant [fresh] fresh(item.values)

//@ func NewIntItem
//@ ensures [type]    result != nil && specIsIntItem(result) && result.(*IntItem) != nil && fresh(result)
//@ ensures [inv]     invIntItem(result.(*IntItem))
//@ ensures [badsize] byteSize != 1 && byteSize != 2 && byteSize != 4 && byteSize != 8 ==> result.(*IntItem).itemErr != nil

func specIsIntItem(it Item) bool { _, ok := it.(*IntItem); return ok }
'''


def uint_slow():
    lo = "len(old(item.values))"
    out = ["""
//@ func (*UintItem).combineUintValuesSlow
//@ paths split
//@ requires item != nil
//@ modifies item.values
//@ ensures [keeps] result == nil ==> specKeepsU(item.values, old(item.values))
//@ ensures [alias] result == nil ==> fresh(item.values) || zzSameSlice(item.values[:0], old(item.values)[:0])
"""]
    for t in UNSIGNED_SMALL:
        out.append("//@ ensures [%s] specIs_%s(value) ==> result == nil && len(item.values) == %s+1 && item.values[%s] == specSatU(uint64(value.(%s)), maxVal)\n" % (t, t, lo, lo, t))
        out.append("//@ ensures [%ss] specIs_S_%s(value) ==> result == nil && len(item.values) == %s+len(value.([]%s)) &&\n//@     forall k :: 0 <= k && k < len(value.([]%s)) ==> item.values[%s+k] == specSatU(uint64(value.([]%s)[k]), maxVal)\n" % (t, t, lo, t, t, lo, t))
    for t in SIGNED:
        out.append("//@ ensures [%s] specIs_%s(value) ==> (result != nil) == (value.(%s) < 0)\n" % (t, t, t))
        out.append("//@ ensures [%sv] specIs_%s(value) && value.(%s) >= 0 ==> len(item.values) == %s+1 && item.values[%s] == specSatU(uint64(value.(%s)), maxVal)\n" % (t, t, t, lo, lo, t))
        out.append("//@ ensures [%ss] specIs_S_%s(value) && result == nil ==> len(item.values) == %s+len(value.([]%s)) &&\n//@     forall k :: 0 <= k && k < len(value.([]%s)) ==> value.([]%s)[k] >= 0 && item.values[%s+k] == specSatU(uint64(value.([]%s)[k]), maxVal)\n" % (t, t, lo, t, t, t, lo, t))
    out.append("//@ ensures [range] result == nil ==> forall j :: len(old(item.values)) <= j && j < len(item.values) ==> item.values[j] <= maxVal\n")
    return "".join(out)


def float_slow():
    lo = "len(old(item.values))"
    out = ["""
//@ func clampF4
//@ inline
//@ ensures [nan]   v != v ==> result != result
//@ ensures [above] v > 3.4028234663852886e+38 ==> (result == 3.4028234663852886e+38 || v > 1.7976931348623157e+308)
//@ ensures [below] v < -3.4028234663852886e+38 ==> (result == -3.4028234663852886e+38 || v < -1.7976931348623157e+308)
//@ ensures [id]    v >= -3.4028234663852886e+38 && v <= 3.4028234663852886e+38 ==> result == v

// specF4OK: a value an F4 item may hold - NaN, an infinity, or a finite value within the float32 magnitude range.
func specF4OK(v float64) bool {
	return v != v || v > 1.7976931348623157e+308 || v < -1.7976931348623157e+308 || (v >= -3.4028234663852886e+38 && v <= 3.4028234663852886e+38)
}

func specKeepsF(nw, old []float64) bool {
	return len(nw) >= len(old) && zzForall(func(j int) bool { return zzImp(0 <= j && j < len(old), math.Float64bits(nw[j]) == math.Float64bits(old[j])) })
}

//@ func (*FloatItem).combineFloatValuesSlow
//@ paths split
//@ requires item != nil
//@ modifies item.values
//@ ensures [keeps] result == nil ==> specKeepsF(item.values, old(item.values))
//@ ensures [alias] result == nil ==> fresh(item.values) || zzSameSlice(item.values[:0], old(item.values)[:0])
"""]
    for t in ["int8", "int16", "int32"] + UNSIGNED_SMALL:
        out.append("//@ ensures [%s] specIs_%s(value) ==> result == nil && len(item.values) == %s+1 && math.Float64bits(item.values[%s]) == math.Float64bits(float64(value.(%s)))\n" % (t, t, lo, lo, t))
        out.append("//@ ensures [%ss] specIs_S_%s(value) ==> result == nil && len(item.values) == %s+len(value.([]%s)) &&\n//@     forall k :: 0 <= k && k < len(value.([]%s)) ==> math.Float64bits(item.values[%s+k]) == math.Float64bits(float64(value.([]%s)[k]))\n" % (t, t, lo, t, t, lo, t))
    for t in ["int", "int64"]:
        out.append("//@ ensures [%s] specIs_%s(value) ==> (result != nil) == (int64(value.(%s)) > 1<<53 || int64(value.(%s)) < -(1<<53))\n" % (t, t, t, t))
        out.append("//@ ensures [%sv] specIs_%s(value) && result == nil ==> len(item.values) == %s+1 && math.Float64bits(item.values[%s]) == math.Float64bits(float64(value.(%s)))\n" % (t, t, lo, lo, t))
    out.append("//@ ensures [f4str] (specIs_string(value) || specIs_S_string(value)) && result == nil && item.byteSize == 4 ==> forall j :: len(old(item.values)) <= j && j < len(item.values) ==> specF4OK(item.values[j])\n")
    for t in ["uint", "uint64"]:
        out.append("//@ ensures [%s] specIs_%s(value) ==> (result != nil) == (uint64(value.(%s)) > 1<<53)\n" % (t, t, t))
        out.append("//@ ensures [%sv] specIs_%s(value) && result == nil ==> len(item.values) == %s+1 && math.Float64bits(item.values[%s]) == math.Float64bits(float64(value.(%s)))\n" % (t, t, lo, lo, t))
    return "".join(out)


CTOR2 = r'''
//@ func (*UintItem).combineUintValues
//@ requires item != nil && (item.byteSize == 1 || item.byteSize == 2 || item.byteSize == 4 || item.byteSize == 8)
//@ modifies item.values
//@ ensures [own]   result == nil ==> fresh(item.values)
//@ trusts  [lt2g]  len(item.values) < 1<<31
//@ loop 1 invariant [fresh] fresh(item.values)

//@ func NewUintItem
//@ ensures [type]    result != nil && specIsUintItem(result) && result.(*UintItem) != nil && fresh(result)
//@ ensures [inv]     invUintItem(result.(*UintItem))
//@ ensures [badsize] byteSize != 1 && byteSize != 2 && byteSize != 4 && byteSize != 8 ==> result.(*UintItem).itemErr != nil

func specIsUintItem(it Item) bool { _, ok := it.(*UintItem); return ok }

//@ func (*FloatItem).combineFloatValues
//@ requires item != nil && (item.byteSize == 4 || item.byteSize == 8)
//@ modifies item.values
//@ ensures [own]   result == nil ==> fresh(item.values)
//@ trusts  [lt2g]  len(item.values) < 1<<31
//@ loop 1 invariant [fresh] fresh(item.values)

//@ func NewFloatItem
//@ ensures [type]    result != nil && specIsFloatItem(result) && result.(*FloatItem) != nil && fresh(result)
//@ ensures [inv]     invFloatItem(result.(*FloatItem))
//@ ensures [badsize] byteSize != 4 && byteSize != 8 ==> result.(*FloatItem).itemErr != nil

func specIsFloatItem(it Item) bool { _, ok := it.(*FloatItem); return ok }

//@ func (*BooleanItem).combineBoolValues
//@ requires item != nil
//@ modifies item.values
//@ trusts  [lt2g]  len(item.values) < 1<<31
//@ loop 1 invariant [fresh] fresh(item.values)

//@ func NewBooleanItem
//@ ensures [type] result != nil && specIsBooleanItem(result) && result.(*BooleanItem) != nil && fresh(result)
//@ ensures [inv]  invBooleanItem(result.(*BooleanItem))

func specIsBooleanItem(it Item) bool { _, ok := it.(*BooleanItem); return ok }

//@ func (*BinaryItem).combineBinaryValues
//@ requires item != nil
//@ modifies item.values
//@ loop 1 invariant [fresh] fresh(item.values)

//@ func NewBinaryItem
//@ ensures [type] result != nil && specIsBinaryItem(result) && result.(*BinaryItem) != nil && fresh(result)
//@ ensures [inv]  invBinaryItem(result.(*BinaryItem))

func specIsBinaryItem(it Item) bool { _, ok := it.(*BinaryItem); return ok }

//@ func NewASCIIItem
//@ ensures [inv] result != nil && specIsASCIIItem(result) && invASCIIItem(result.(*ASCIIItem)) && fresh(result)
//@ ensures [val] len(value) <= MaxByteSize ==> result.(*ASCIIItem).itemErr == nil && result.(*ASCIIItem).value == value
//@ ensures [err] len(value) > MaxByteSize ==> result.(*ASCIIItem).itemErr != nil

func specIsASCIIItem(it Item) bool { _, ok := it.(*ASCIIItem); return ok }

//@ func NewLocalizedStrItem
//@ ensures [inv] result != nil && specIsLocalizedStrItem(result) && invLocalizedStrItem(result.(*LocalizedStrItem)) && fresh(result)
//@ ensures [val] len(value)+2 <= MaxByteSize ==> result.(*LocalizedStrItem).itemErr == nil && result.(*LocalizedStrItem).value == value && result.(*LocalizedStrItem).lsh == lsh
//@ ensures [err] len(value)+2 > MaxByteSize ==> result.(*LocalizedStrItem).itemErr != nil

func specIsLocalizedStrItem(it Item) bool { _, ok := it.(*LocalizedStrItem); return ok }
'''


LIST = r'''
// --- lists: the cached "clean" flag is sound (one level; children carry their own invariant by construction) ---

func specIsListItem(it Item) bool  { _, ok := it.(*ListItem); return ok }
func specIsJIS8Item(it Item) bool  { _, ok := it.(*JIS8Item); return ok }
func specIsEmptyItem(it Item) bool { _, ok := it.(*EmptyItem); return ok }

// specOwnErrNil: v is a non-nil built-in item whose own deferred error is nil (and, for a list, whose cache says clean).
func specOwnErrNil(v Item) bool {
	switch t := v.(type) {
	case *IntItem:
		return t != nil && t.itemErr == nil
	case *UintItem:
		return t != nil && t.itemErr == nil
	case *FloatItem:
		return t != nil && t.itemErr == nil
	case *ASCIIItem:
		return t != nil && t.itemErr == nil
	case *JIS8Item:
		return t != nil && t.itemErr == nil
	case *BinaryItem:
		return t != nil && t.itemErr == nil
	case *BooleanItem:
		return t != nil && t.itemErr == nil
	case *LocalizedStrItem:
		return t != nil && t.itemErr == nil
	case *EmptyItem:
		return t != nil && t.itemErr == nil
	case *ListItem:
		return t != nil && t.itemErr == nil && t.clean
	}
	return false
}

//@ func childClean
//@ ensures [exact] result == specOwnErrNil(v)

//@ func NewListItem
//@ ensures [type]  result != nil && specIsListItem(result) && result.(*ListItem) != nil && fresh(result)
//@ ensures [own]   fresh(result.(*ListItem).values)
//@ ensures [limit] len(values) > MaxByteSize ==> result.(*ListItem).itemErr != nil
//@ ensures [clean] result.(*ListItem).clean ==> result.(*ListItem).itemErr == nil
//@ ensures [count] result.(*ListItem).itemErr == nil ==> len(result.(*ListItem).values) <= MaxByteSize
//@ loop 1 invariant [fresh] fresh(item.values) && len(item.values) <= zzIter() && item.itemErr == nil

//@ func (*ListItem).Error
//@ requires item != nil
//@ ensures [clean] item.clean ==> result == nil
//@ ensures [own]   !item.clean && item.itemErr != nil ==> result != nil
//@ ensures [child] !item.clean ==> forall k :: 0 <= k && k < len(item.values) ==>
//@                 (item.values[k] != nil && item.values[k].Error() != nil ==> result != nil)
//@ loop 1 invariant [own]   item.itemErr != nil ==> errs != nil
//@ loop 1 invariant [child] forall k :: 0 <= k && k < zzIter() ==> (item.values[k] != nil && item.values[k].Error() != nil ==> errs != nil)
'''


def section():
    return HEAD + fast_path() + int_slow() + CTOR + uint_slow() + float_slow() + CTOR2 + LIST


def decoders():
    out = []
    for T, P, elem, conv in [("IntItem", "Int", "int64", {1: "int64(int8(owned[pos+k]))", 2: "int64(int16(uint16(owned[pos+2*k])<<8|uint16(owned[pos+2*k+1])))",
                                                        4: "int64(int32(uint32(owned[pos+4*k])<<24|uint32(owned[pos+4*k+1])<<16|uint32(owned[pos+4*k+2])<<8|uint32(owned[pos+4*k+3])))",
                                                        8: "int64(uint64(owned[pos+8*k])<<56|uint64(owned[pos+8*k+1])<<48|uint64(owned[pos+8*k+2])<<40|uint64(owned[pos+8*k+3])<<32|uint64(owned[pos+8*k+4])<<24|uint64(owned[pos+8*k+5])<<16|uint64(owned[pos+8*k+6])<<8|uint64(owned[pos+8*k+7]))"}),
                              ("FloatItem", "Float", "float64", {4: "float64(math.Float32frombits(uint32(owned[pos+4*k])<<24|uint32(owned[pos+4*k+1])<<16|uint32(owned[pos+4*k+2])<<8|uint32(owned[pos+4*k+3])))",
                                                             8: "math.Float64frombits(uint64(owned[pos+8*k])<<56|uint64(owned[pos+8*k+1])<<48|uint64(owned[pos+8*k+2])<<40|uint64(owned[pos+8*k+3])<<32|uint64(owned[pos+8*k+4])<<24|uint64(owned[pos+8*k+5])<<16|uint64(owned[pos+8*k+6])<<8|uint64(owned[pos+8*k+7]))"}),
                              ("UintItem", "Uint", "uint64", {1: "uint64(owned[pos+k])", 2: "uint64(owned[pos+2*k])<<8|uint64(owned[pos+2*k+1])",
                                                          4: "uint64(owned[pos+4*k])<<24|uint64(owned[pos+4*k+1])<<16|uint64(owned[pos+4*k+2])<<8|uint64(owned[pos+4*k+3])",
                                                          8: "uint64(owned[pos+8*k])<<56|uint64(owned[pos+8*k+1])<<48|uint64(owned[pos+8*k+2])<<40|uint64(owned[pos+8*k+3])<<32|uint64(owned[pos+8*k+4])<<24|uint64(owned[pos+8*k+5])<<16|uint64(owned[pos+8*k+6])<<8|uint64(owned[pos+8*k+7])"})]:
        ws = sorted(conv)
        wc = " || ".join("byteSize == %d" % w for w in ws)
        out.append("""
//@ func decode%(T)s
//@ paths split
//@ requires 0 <= startPos && startPos < pos && pos <= len(owned) && (%(wc)s) && 0 <= length && length <= MaxByteSize && slab != nil
//@ allocates [input] len(owned) + 1
//@ ensures [mod]  length%%byteSize != 0 ==> result2 != nil
//@ ensures [cut]  pos+length > len(owned) ==> result2 != nil
//@ ensures [acc]  length%%byteSize == 0 && pos+length <= len(owned) ==> result2 == nil
//@ ensures [ok]   result2 == nil ==> result1 == pos+length && specIs%(T)s(result0) && result0.(*%(T)s) != nil && inv%(T)s(result0.(*%(T)s)) &&
//@                result0.(*%(T)s).itemErr == nil && result0.(*%(T)s).byteSize == uint32(byteSize) && int(result0.(*%(T)s).size)*byteSize == length &&
//@                zzSameSlice(result0.(*%(T)s).raw(), owned[startPos:pos+length])
""" % dict(T=T, wc=wc))
        for w in ws:
            if P == "Float":
                out.append("//@ ensures [val%d] result2 == nil && byteSize == %d ==> forall k :: 0 <= k && k < length/%d ==> math.Float64bits(spec%sVal(result0.(*%s), k)) == math.Float64bits(%s)\n" % (w, w, w, P, T, conv[w]))
            else:
                out.append("//@ ensures [val%d] result2 == nil && byteSize == %d ==> forall k :: 0 <= k && k < length/%d ==> spec%sVal(result0.(*%s), k) == %s\n" % (w, w, w, P, T, conv[w]))
        for w in ws:
            if P == "Float":
                out.append("//@ loop 1 invariant [v%d] byteSize == %d ==> forall k :: 0 <= k && k < i ==> math.Float64bits(vals[k]) == math.Float64bits(%s)\n" % (w, w, conv[w]))
            else:
                out.append("//@ loop 1 invariant [v%d] byteSize == %d ==> forall k :: 0 <= k && k < i ==> vals[k] == %s\n" % (w, w, conv[w]))
        out.append("//@ loop 1 invariant [f] fresh(vals) && len(vals) == count && count*byteSize == length && pos+length <= len(owned) && count != 1\n")
    text = "".join(out)
    fixed = []
    import re as _re
    for l in text.split("\n"):
        if l.startswith("//@ ensures") or l.startswith("//@                "):
            l = _re.sub(r"(?<![\\w.])pos(?![\\w(])", "old(pos)", l)
        fixed.append(l)
    return "\n".join(fixed)
