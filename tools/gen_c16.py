"""C16 section of the secs2 contract file (imported by gen_secs2_contracts.py)."""

SIGNED = ["int", "int8", "int16", "int32", "int64"]
UNSIGNED_SMALL = ["uint8", "uint16", "uint32"]
UNSIGNED_BIG = ["uint", "uint64"]
ALLINT = SIGNED + UNSIGNED_SMALL + UNSIGNED_BIG


def ident(t):
    return t.replace("[]", "S_")


def is_funcs(types):
    out = []
    for t in types:
        out.append("func specIs_%s(v any) bool { _, ok := v.(%s); return ok }\n" % (ident(t), t))
    return "".join(out)


HEAD = r'''
// ====================================================================================================
// C16: constructors clamp, never wrap; errored items are never equal and never reach a message
// ====================================================================================================

// Representable range of a signed integer of w bytes (SEMI E5: two's complement).
func specIntLo(w uint32) int64 {
	switch w {
	case 1:
		return -128
	case 2:
		return -32768
	case 4:
		return -2147483648
	}
	return -9223372036854775808
}

func specIntHi(w uint32) int64 {
	switch w {
	case 1:
		return 127
	case 2:
		return 32767
	case 4:
		return 2147483647
	}
	return 9223372036854775807
}

// Largest unsigned integer of w bytes.
func specUintHi(w uint32) uint64 {
	switch w {
	case 1:
		return 255
	case 2:
		return 65535
	case 4:
		return 4294967295
	}
	return 18446744073709551615
}

// specSatI: v saturated to [lo, hi] (nearest representable bound; identity inside the range).
func specSatI(v, lo, hi int64) int64 {
	if v < lo {
		return lo
	}
	if v > hi {
		return hi
	}
	return v
}

// specSatUtoI: an unsigned source saturated to [.., hi] (hi >= 0): compared unsigned, BEFORE any conversion.
func specSatUtoI(v uint64, hi int64) int64 {
	if v > uint64(hi) {
		return hi
	}
	return int64(v)
}

func specSatU(v, hi uint64) uint64 {
	if v > hi {
		return hi
	}
	return v
}

//@ func clampInt64
//@ inline
//@ ensures [below] v < minVal ==> result == minVal
//@ ensures [above] minVal <= v && v > maxVal ==> result == maxVal
//@ ensures [id]    minVal <= v && v <= maxVal ==> result == v

//@ func clampUint64
//@ inline
//@ ensures [above] v > maxVal ==> result == maxVal
//@ ensures [id]    v <= maxVal ==> result == v

// specKeeps: new starts with the elements of old (appending never disturbs what was already collected).
func specKeepsI(nw, old []int64) bool {
	return len(nw) >= len(old) && zzForall(func(j int) bool { return zzImp(0 <= j && j < len(old), nw[j] == old[j]) })
}
func specKeepsU(nw, old []uint64) bool {
	return len(nw) >= len(old) && zzForall(func(j int) bool { return zzImp(0 <= j && j < len(old), nw[j] == old[j]) })
}

// An errored item is never equal to anything.
//@ func Equal
//@ ensures [nil]  (a == nil || b == nil) ==> result == (a == nil && b == nil)
//@ ensures [err]  a != nil && b != nil && (a.Error() != nil || b.Error() != nil) ==> !result
'''


def fast_path():
    out = [is_funcs(ALLINT + ["[]" + t for t in ALLINT] + ["string", "[]string"])]
    out.append("""
//@ func intScalarFastPath
//@ requires byteSize == 1 || byteSize == 2 || byteSize == 4 || byteSize == 8
//@ ensures [arity] len(values) != 1 ==> !ok
""")
    for t in SIGNED + UNSIGNED_SMALL:
        out.append("//@ ensures [%s] len(values) == 1 && specIs_%s(values[0]) ==> ok && clamped == specSatI(int64(values[0].(%s)), specIntLo(byteSize), specIntHi(byteSize))\n" % (t, t, t))
    for t in UNSIGNED_BIG:
        out.append("//@ ensures [%s] len(values) == 1 && specIs_%s(values[0]) ==> ok && clamped == specSatUtoI(uint64(values[0].(%s)), specIntHi(byteSize))\n" % (t, t, t))
    cond = " && ".join("!specIs_%s(values[0])" % t for t in ALLINT)
    out.append("//@ ensures [other] len(values) == 1 && %s ==> !ok\n" % cond)
    return "".join(out)


def int_slow():
    out = ["""
//@ func (*IntItem).combineIntValuesSlow
//@ paths split
//@ requires item != nil && minVal <= 0 && 0 <= maxVal
//@ modifies item.values
//@ ensures [keeps] specKeepsI(item.values, old(item.values))
"""]
    lo = "len(old(item.values))"
    for t in ["int8", "int16", "int32"] + UNSIGNED_SMALL:
        out.append("//@ ensures [%s] specIs_%s(value) ==> result == nil && len(item.values) == %s+1 && item.values[%s] == specSatI(int64(value.(%s)), minVal, maxVal)\n" % (t, t, lo, lo, t))
        out.append("//@ ensures [%ss] specIs_S_%s(value) ==> result == nil && len(item.values) == %s+len(value.([]%s)) &&\n//@     forall k :: 0 <= k && k < len(value.([]%s)) ==> item.values[%s+k] == specSatI(int64(value.([]%s)[k]), minVal, maxVal)\n" % (t, t, lo, t, t, lo, t))
    for t in UNSIGNED_BIG:
        out.append("//@ ensures [%s] specIs_%s(value) ==> result == nil && len(item.values) == %s+1 && item.values[%s] == specSatUtoI(uint64(value.(%s)), maxVal)\n" % (t, t, lo, lo, t))
        out.append("//@ ensures [%ss] specIs_S_%s(value) ==> result == nil && len(item.values) == %s+len(value.([]%s)) &&\n//@     forall k :: 0 <= k && k < len(value.([]%s)) ==> item.values[%s+k] == specSatUtoI(uint64(value.([]%s)[k]), maxVal)\n" % (t, t, lo, t, t, lo, t))
    handled = ["int8", "int16", "int32"] + UNSIGNED_SMALL + UNSIGNED_BIG
    cond = " && ".join(["!specIs_%s(value) && !specIs_S_%s(value)" % (t, t) for t in handled] + ["!specIs_string(value)", "!specIs_S_string(value)"])
    out.append("//@ ensures [other] %s ==> result != nil\n" % cond)
    out.append("//@ ensures [range] forall j :: len(old(item.values)) <= j && j < len(item.values) ==> minVal <= item.values[j] && item.values[j] <= maxVal\n")
    return "".join(out)


def section():
    return HEAD + fast_path() + int_slow()
