#!/usr/bin/env python3
"""seedmatrix.py [seed ...] : apply each seeded change to /repo, run the designated check(s), undo it, and write
seeded/<id>/meta.json (property, what it needs to manifest, what was run, which obligation caught it)."""
import json, os, re, subprocess, sys
ROOT = os.path.dirname(os.path.dirname(os.path.abspath(__file__)))
CHECKS = {"C01-mutB": ["C01", "C02"], "C04-mutB": ["C04", "C03"], "C11-mutB": ["C04"], "C13-mutA": ["C14"], "C13-mutB": ["C14"]}
claimed = set(c["property_id"] for c in json.load(open(os.path.join(ROOT, "MANIFEST.json")))["checks"])

def section(text, rx):
    m = re.search(rx, text, re.I | re.M)
    if not m:
        return ""
    rest = text[m.end():]
    n = re.search(r"^\s*(#{1,3} |\*\*[A-Z])", rest, re.M)
    body = rest[:n.start()] if n else rest
    return " ".join(body.split())[:900]

seeds = sys.argv[1:] or sorted(os.listdir(os.path.join(ROOT, "seeded")))
for sd in seeds:
    d = os.path.join(ROOT, "seeded", sd)
    if not os.path.isdir(d):
        continue
    prop = sd.split("-")[0]
    notes = open(os.path.join(d, "notes.md")).read() if os.path.exists(os.path.join(d, "notes.md")) else ""
    title = notes.splitlines()[0].lstrip("# ").strip() if notes else sd
    needs = section(notes, r"^.*needed to manifest.*$") or section(notes, r"^.*why it breaks.*$")
    confirm = json.load(open(os.path.join(d, "confirm.json"))) if os.path.exists(os.path.join(d, "confirm.json")) else {}
    runs = []
    for chk in CHECKS.get(sd, [prop]):
        if chk not in claimed:
            runs.append({"check": chk, "skipped": "property not claimed (not_applicable): no check to run"})
            continue
        r = subprocess.run([os.path.join(ROOT, "tools", "seedrun.sh"), d, chk], capture_output=True, text=True)
        out = r.stdout + r.stderr
        failed = re.findall(r"^\s*failed: (\S+) \[(\w+)\]", out, re.M)
        viol = re.findall(r"^VIOLATION property=\S+ replay=(\S+)(.*)$", out, re.M)
        m = re.search(r"seedrun \S+ prop=\S+ rc=(\d+)", out)
        runs.append({"check": chk, "command": "tools/seedrun.sh seeded/%s %s  (git -C /repo apply; ./check %s quick; git -C /repo checkout -- .)" % (sd, chk, chk),
                     "exit": int(m.group(1)) if m else None,
                     "failed_obligations": [{"obligation": a, "solver_status": b} for a, b in failed][:8],
                     "replayed_on_real_code": any("no-failing-input-found" not in v[1] for v in viol) if viol else False})
        print(sd, chk, "rc=%s" % (m.group(1) if m else "?"), [a for a, _ in failed][:3], flush=True)
    caught = [r_["check"] for r_ in runs if r_.get("exit") == 1]
    meta = {"seed": sd, "property": prop, "title": title,
            "breaks": "property %s (see notes.md for the argument and demo_test.go for the failing demonstration)" % prop,
            "needs_to_manifest": needs,
            "patch": "patch_on_fixed_tree.diff" if os.path.exists(os.path.join(d, "patch_on_fixed_tree.diff")) else "patch.diff",
            "confirmed_by": {"demo_fails_with_change": confirm.get("demo_fails_with_change"), "demo_passes_without_change": confirm.get("demo_passes_without_change"),
                             "existing_suite_passes_with_change": confirm.get("suite_passes_with_change"), "commands": confirm.get("commands")},
            "runs": runs, "caught_by": caught, "caught": bool(caught)}
    json.dump(meta, open(os.path.join(d, "meta.json"), "w"), indent=1)
