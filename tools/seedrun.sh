#!/bin/bash
# seedrun.sh <seed-dir> [prop] [tier] : apply a seeded change to /repo, run the property's check, undo the change.
SD="$(cd "$1" && pwd)"; PROP="${2:-$(basename "$SD" | cut -d- -f1)}"; TIER="${3:-quick}"
[ -z "$(git -C /repo status --porcelain)" ] || { echo "/repo is dirty: commit first"; exit 2; }
P="$SD/patch.diff"; [ -f "$SD/patch_on_fixed_tree.diff" ] && P="$SD/patch_on_fixed_tree.diff"; cd /repo && git apply --ignore-whitespace "$P" || { echo "patch does not apply"; exit 2; }
cd /verif && GOVC_NOEVIDENCE=1 GOVC_REPLAYDIR=/tmp/govc-seed-replays ./check "$PROP" "$TIER"; rc=$?
cd /repo && git checkout -- . 
echo "seedrun $(basename $SD) prop=$PROP rc=$rc"
exit $rc
