#!/bin/sh
# mutant.sh <patch-or-sed-script.sh> <property> [tier]  — apply a change to a scratch copy of /repo and run a check on it.
# Used by the must-fail self-tests; never touches /repo and never writes evidence.
set -e
P="$1"; PROP="$2"; TIER="${3:-quick}"
D=$(mktemp -d /tmp/govc-mut-XXXXXX)
trap 'rm -rf "$D"' EXIT
rsync -a --exclude=.git /repo/ "$D/"
case "$P" in
  *.sh) (cd "$D" && sh "$P") ;;
  *) (cd "$D" && patch -s -p1 < "$P") ;;
esac
cd /verif
GOVC_REPO="$D" GOVC_NOEVIDENCE=1 GOVC_REPLAYDIR="$D/replays" ./check "$PROP" "$TIER"
