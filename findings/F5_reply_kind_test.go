package hsms

// Demonstration for finding F5 (property C06): a control response whose system bytes collide with an open W-bit DATA
// transaction must not complete that transaction with (nil reply, nil error).  Place in /repo/hsms (go test -overlay).

import (
	"context"
	"testing"
	"time"
)

func TestZZF5ControlResponseDoesNotCompleteDataTransaction(t *testing.T) {
	c, _ := newTestSendConn(t, SelectedState, WithT3(300*time.Millisecond))
	sys := [4]byte{0, 0, 0, 7}
	msg := mustSendData(t, sys, true)
	type out struct {
		m   Message
		err error
	}
	done := make(chan out, 1)
	go func() {
		m, err := c.sendWaitReply(context.Background(), msg)
		done <- out{m, err}
	}()
	// wait until the sender has registered, then route a Linktest.rsp carrying the same system bytes
	deadline := time.Now().Add(2 * time.Second)
	for c.cur.Load().replies.len() == 0 && time.Now().Before(deadline) {
		time.Sleep(time.Millisecond)
	}
	req := NewLinktestReq(sys)
	rsp, err := NewLinktestRsp(req)
	if err != nil {
		t.Fatal(err)
	}
	c.RouteReply(rsp)
	// then the real secondary
	c.RouteReply(mustSendReply(t, sys))
	select {
	case o := <-done:
		if o.err == nil {
			if _, ok := o.m.(*DataMessage); !ok {
				t.Fatalf("data transaction completed by %T with nil error (want its data reply or a definite error)", o.m)
			}
		}
	case <-time.After(3 * time.Second):
		t.Fatal("sender did not return")
	}
}
